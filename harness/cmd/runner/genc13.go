package main

// C13 part of the gen engine: the response is a pure function of the request.

import (
	"bytes"
	"crypto/sha256"
	"fmt"
	"os"
	"os/user"
	"path/filepath"
	"regexp"
	"sort"
	"strings"
	"time"

	"github.com/cosmos/cosmos-proto/verifh/corpus"
	"google.golang.org/protobuf/proto"
	"google.golang.org/protobuf/types/pluginpb"
)

var (
	reDate = regexp.MustCompile(`\b20[2-9]\d[-/.]\d\d[-/.]\d\d\b`)
	reTime = regexp.MustCompile(`\b\d\d:\d\d:\d\d\b`)
)

type perturb struct {
	env []string
	dir string
}

func (g *genCtx) perturbations(n int, scratch string) ([]perturb, []string) {
	host, _ := os.Hostname()
	uname := ""
	if u, err := user.Current(); err == nil {
		uname = u.Username
	}
	markers := []string{scratch, g.build, filepath.Dir(g.build), g.plugin}
	if len(host) >= 4 && host != "localhost" {
		markers = append(markers, host)
	}
	if len(uname) >= 4 && uname != "root" {
		markers = append(markers, uname)
	}
	if h := os.Getenv("HOME"); len(h) >= 4 {
		markers = append(markers, h+"/")
	}
	tzs := []string{"UTC", "America/New_York", "Asia/Tokyo", "Europe/Paris", "Pacific/Kiritimati"}
	var ps []perturb
	for i := 0; i < n; i++ {
		mark := fmt.Sprintf("VERIFMARK%dq", i)
		dir := filepath.Join(scratch, fmt.Sprintf("cwd_%s", mark))
		home := filepath.Join(scratch, fmt.Sprintf("home_%s", mark))
		os.MkdirAll(dir, 0o755)
		os.MkdirAll(home, 0o755)
		env := []string{"PATH=" + os.Getenv("PATH"), "TZ=" + tzs[i%len(tzs)], "HOME=" + home, "PWD=" + dir, fmt.Sprintf("GOMAXPROCS=%d", []int{1, 2, 16, 3, 64}[i%5]),
			"USER=user" + mark, "LOGNAME=user" + mark, "HOSTNAME=host" + mark, "TMPDIR=" + home, "LANG=" + []string{"C", "de_DE.UTF-8", "tr_TR.UTF-8", "ja_JP.UTF-8"}[i%4],
			"LC_ALL=" + []string{"C", "de_DE.UTF-8", "tr_TR.UTF-8", "ja_JP.UTF-8"}[i%4], "VERIF_EXTRA_" + mark + "=value" + mark, "GOTRACEBACK=all",
			"GODEBUG=" + []string{"", "randautoseed=1", "gctrace=0", "madvdontneed=1"}[i%4], "SOURCE_DATE_EPOCH=" + fmt.Sprint(1000000*(i+1)), "GOGC=" + []string{"100", "1", "off", "400"}[i%4]}
		ps = append(ps, perturb{env: env, dir: dir})
		markers = append(markers, mark)
	}
	return ps, markers
}

func (g *genCtx) runC13(reqs []*genReq) {
	o := g.o
	n := 5
	if g.cfg.thorough() {
		n = 20
	}
	scratch := filepath.Join(g.build, "gencheck", fmt.Sprintf("c13-%s-%d", g.cfg.tier, g.cfg.seed))
	os.RemoveAll(scratch)
	os.MkdirAll(scratch, 0o755)
	defer os.RemoveAll(scratch)
	perts, markers := g.perturbations(n, scratch)
	now := time.Now()
	// numeric renderings only: month names ("May") are ordinary words of the emitted comments
	dates := []string{now.Format("2006-01-02"), now.Format("2006/01/02"), now.Format("02.01.2006"), now.Format("01/02/2006"), now.Format("20060102")}

	type verdict struct {
		base     *runRes
		problems []string
		runs     int
	}
	vs := make([]*verdict, len(reqs))
	parallel(len(reqs), 8, func(i int) {
		r := reqs[i]
		v := &verdict{}
		vs[i] = v
		in := r.request(r.param, r.generate)
		v.base = runPlugin(g.plugin, in, nil, "")
		v.runs++
		if bad, why := v.base.crashed(); bad && r.expect != "nocrash" {
			// a crash is C12's finding; determinism of crashes is not interesting
			v.problems = append(v.problems, "")
			_ = why
			return
		}
		// (1) repeated runs in fresh processes under perturbed environments
		for k, p := range perts {
			res := runPlugin(g.plugin, in, p.env, p.dir)
			v.runs++
			if !bytes.Equal(res.stdout, v.base.stdout) || res.exit != v.base.exit {
				v.problems = append(v.problems, fmt.Sprintf("run %d (env %s, cwd %s) answers differently from the first run: %s", k, strings.Join(p.env[1:5], " "), filepath.Base(p.dir), diffHint(v.base, res)))
				break
			}
		}
		if v.base.resp == nil {
			return
		}
		// (2) the same request with other parameter spellings naming the same features keeps the bytes (one spelling per run index)
		// is C12's GENSAME; here: permutations of file_to_generate
		if len(r.generate) >= 2 {
			rr := newRng(g.cfg.seed, "c13/perm/"+r.name)
			perms := [][]string{reverse(r.generate), append(append([]string{}, r.generate[1:]...), r.generate[0])}
			for k := 0; k < 2; k++ {
				p := append([]string{}, r.generate...)
				for a := len(p) - 1; a > 0; a-- {
					b := rr.intn(a + 1)
					p[a], p[b] = p[b], p[a]
				}
				perms = append(perms, p)
			}
			for _, p := range perms {
				res := runPlugin(g.plugin, r.request(r.param, p), nil, "")
				v.runs++
				if !bytes.Equal(res.stdout, v.base.stdout) {
					v.problems = append(v.problems, fmt.Sprintf("file_to_generate order %v answers differently from %v: %s", p, r.generate, diffHint(v.base, res)))
					break
				}
			}
			// (3) subsets of co-generated files: each file alone, and each file left out
			subsets := [][]string{}
			for k := range r.generate {
				subsets = append(subsets, []string{r.generate[k]})
				if len(r.generate) > 2 {
					subsets = append(subsets, append(append([]string{}, r.generate[:k]...), r.generate[k+1:]...))
				}
			}
			baseContent := map[string]string{}
			for _, f := range v.base.resp.File {
				baseContent[f.GetName()] = f.GetContent()
			}
			for _, s := range subsets {
				res := runPlugin(g.plugin, r.request(r.param, s), nil, "")
				v.runs++
				if bad, why := res.crashed(); bad {
					v.problems = append(v.problems, fmt.Sprintf("generating only %v crashes (%s) while %v does not", s, why, r.generate))
					break
				}
				if (res.resp.Error != nil) != (v.base.resp.Error != nil) {
					if v.base.resp.Error != nil {
						continue // the full request fails on some other file: nothing to compare
					}
					v.problems = append(v.problems, fmt.Sprintf("generating only %v fails (%s) while generating %v works", s, firstLines(res.resp.GetError(), 2), r.generate))
					break
				}
				if len(res.resp.File) != r.proto3Requested(s) && v.base.resp.Error == nil {
					v.problems = append(v.problems, fmt.Sprintf("generating only %v yields %d files", s, len(res.resp.File)))
					break
				}
				for _, f := range res.resp.File {
					bc, ok := baseContent[f.GetName()]
					if !ok || bc != f.GetContent() {
						v.problems = append(v.problems, fmt.Sprintf("content of %s depends on the co-generated files: generated with %v it differs from generated with %v: %s", f.GetName(), s, r.generate, firstDiff(bc, f.GetContent())))
						break
					}
				}
			}
		}
		// (4) hermeticity: nothing of the environment in the output
		for _, f := range v.base.resp.File {
			c := f.GetContent()
			for _, m := range markers {
				if m != "" && containsMarker(c, m) {
					v.problems = append(v.problems, fmt.Sprintf("%s contains environment-dependent text %q", f.GetName(), m))
				}
			}
			for _, d := range dates {
				if strings.Contains(c, d) && !schemaMentions(r, d) {
					v.problems = append(v.problems, fmt.Sprintf("%s contains today's date %q", f.GetName(), d))
				}
			}
			if m := reDate.FindString(c); m != "" && !schemaMentions(r, m) {
				v.problems = append(v.problems, fmt.Sprintf("%s contains a date %q", f.GetName(), m))
			}
			if m := reTime.FindString(c); m != "" && !schemaMentions(r, m) {
				v.problems = append(v.problems, fmt.Sprintf("%s contains a time of day %q", f.GetName(), m))
			}
			for _, abs := range []string{"/tmp/", "/home/", "/root/", "/usr/", "/var/", "/Users/", "C:\\"} {
				if strings.Contains(c, abs) && !schemaMentions(r, abs) {
					v.problems = append(v.problems, fmt.Sprintf("%s contains an absolute path (%q)", f.GetName(), abs))
				}
			}
		}
	})
	total := 0
	for i, v := range vs {
		r := reqs[i]
		total += v.runs
		if len(v.problems) == 1 && v.problems[0] == "" {
			o.count("c13/crashing-request-skipped")
			continue
		}
		if len(v.problems) == 0 {
			o.propOK += v.runs - 1 // one byte comparison per further run
			o.count("c13/deterministic")
			o.nontrivial("c13/" + r.name)
			continue
		}
		for _, p := range v.problems {
			o.withKey(r.key()).prop("C13", false, r.name+": "+p)
		}
		o.count("c13/differs")
	}
	// (5) many repetitions of one request per spelling of the parameter (absent, empty, defaulted and explicit feature lists)
	total += g.paramFormRepeats(reqs, func(i int) *runRes { return vs[i].base }, perts)
	o.hist["c13/process-runs"] = total
	o.hist["c13/runs-per-request"] = n + 1
	// model lines: the two decision procedures whose order-independence is proved (feature order, message index)
	for i, r := range reqs {
		v := vs[i]
		if v.base == nil || v.base.resp == nil || v.base.resp.Error != nil || len(v.base.resp.File) == 0 {
			continue
		}
		st := &c12State{req: r, res: v.base, files: map[string]string{}}
		g.identLines(st)
	}
	var jobs [][2]interface{}
	for i, r := range reqs {
		if vs[i].base == nil || vs[i].base.resp == nil || vs[i].base.resp.Error != nil || r.expect == "nocrash" || (r.class == "random" && i%10 != 0) {
			continue
		}
		for _, f := range featureStrings {
			jobs = append(jobs, [2]interface{}{r, f})
		}
	}
	results := make([]*runRes, len(jobs))
	parallel(len(jobs), 8, func(k int) {
		r := jobs[k][0].(*genReq)
		results[k] = runPlugin(g.plugin, r.request(replaceFeatures(r.param, jobs[k][1].(string)), r.generate), perts[k%len(perts)].env, perts[k%len(perts)].dir)
	})
	for k, j := range jobs {
		r := j[0].(*genReq)
		o.kase("GENFEAT", []string{"[" + j[1].(string) + "]", fmt.Sprint(r.proto3Requested(r.generate)), hasMsgFlag(r)}, featObs(observedFeatures(results[k]), r))
		g.gp.mainLine(o, r, replaceFeatures(r.param, j[1].(string)), results[k])
	}
}

// ---- parameter forms x many fresh processes --------------------------------------------------------------------------------
// A request is (proto files, file_to_generate, parameter); the parameter may be absent, present and empty, or spell the feature
// list in several ways, and some spellings leave the feature set to the plugin's default ("all" -> whatever is registered, held
// in a Go map). An order decided by map iteration shows up in a fraction of the runs only (a 2-entry map starts at the "other"
// entry in 1 process of 8), so 1+5 runs per request are no search at all: here the SAME request is repeated N times in fresh
// processes for every parameter form and the serialised responses are byte-compared with the first one of that form.
// N = 40 (quick: a 1-in-8 event is missed with probability (7/8)^39 < 0.6% per form and schema) / 200 (thorough).
type paramForm struct {
	label string
	set   func(req *pluginpb.CodeGeneratorRequest, rest string) // rest: the request's non-features parameters (M mappings ...)
}

func joinParam(a, b string) string {
	switch {
	case a == "":
		return b
	case b == "":
		return a
	}
	return a + "," + b
}

var paramForms = []paramForm{
	{"parameter absent", func(q *pluginpb.CodeGeneratorRequest, rest string) {
		q.Parameter = nil
		if rest != "" {
			q.Parameter = proto.String(rest) // no features= among the parameters the schema needs
		}
	}},
	{"parameter present and empty", func(q *pluginpb.CodeGeneratorRequest, rest string) { q.Parameter = proto.String(rest) }},
	{"features=all", func(q *pluginpb.CodeGeneratorRequest, rest string) { q.Parameter = proto.String(joinParam("features=all", rest)) }},
	{"features=fast+protoc", func(q *pluginpb.CodeGeneratorRequest, rest string) {
		q.Parameter = proto.String(joinParam("features=fast+protoc", rest))
	}},
	{"features=protoc+fast", func(q *pluginpb.CodeGeneratorRequest, rest string) {
		q.Parameter = proto.String(joinParam("features=protoc+fast", rest))
	}},
	{"features=all+fast", func(q *pluginpb.CodeGeneratorRequest, rest string) { q.Parameter = proto.String(joinParam("features=all+fast", rest)) }},
	{"paths=import (no features)", func(q *pluginpb.CodeGeneratorRequest, rest string) { q.Parameter = proto.String(joinParam("paths=import", rest)) }},
	{"features=fast", func(q *pluginpb.CodeGeneratorRequest, rest string) { q.Parameter = proto.String(joinParam("features=fast", rest)) }},
}

func respHash(r *runRes) string {
	if r == nil {
		return "-"
	}
	h := sha256.Sum256(r.stdout)
	return fmt.Sprintf("sha256:%x(%d bytes, exit %d)", h[:8], len(r.stdout), r.exit)
}

// which requests: the smallest schemas with messages (every feature leaves its trace in the output, processes are cheap), the
// smallest multi-file one, and (thorough) more of each plus random schemas
func (g *genCtx) paramFormSchemas(reqs []*genReq, base func(i int) *runRes) []int {
	type cand struct{ i, size int }
	var single, multi, random []cand
	for i, r := range reqs {
		b := base(i)
		if b == nil || b.resp == nil || b.resp.Error != nil || len(b.resp.File) == 0 || r.expect != corpus.ExpFiles || hasMsgFlag(r) != "msg" {
			continue
		}
		c := cand{i, len(r.request(r.param, r.generate))}
		switch {
		case r.class == "random":
			random = append(random, c)
		case r.proto3Requested(r.generate) >= 2:
			multi = append(multi, c)
		default:
			single = append(single, c)
		}
	}
	for _, cs := range [][]cand{single, multi} {
		sort.SliceStable(cs, func(a, b int) bool { return cs[a].size < cs[b].size })
	}
	nS, nM, nR := 3, 2, 1
	if g.cfg.thorough() {
		nS, nM, nR = 6, 3, 3
	}
	var out []int
	take := func(cs []cand, n int) {
		for k := 0; k < n && k < len(cs); k++ {
			out = append(out, cs[k].i)
		}
	}
	take(single, nS)
	take(multi, nM)
	take(random, nR)
	return out
}

func (g *genCtx) paramFormRepeats(reqs []*genReq, base func(i int) *runRes, perts []perturb) int {
	o := g.o
	n := 40
	if g.cfg.thorough() {
		n = 200
	}
	idx := g.paramFormSchemas(reqs, base)
	type job struct {
		r    *genReq
		form paramForm
		in   []byte
	}
	var jobs []job
	for _, i := range idx {
		r := reqs[i]
		for _, f := range paramForms {
			q := &pluginpb.CodeGeneratorRequest{}
			if err := proto.Unmarshal(r.request(r.param, r.generate), q); err != nil {
				panic(err)
			}
			f.set(q, dropFeatures(r.param))
			in, err := proto.Marshal(q)
			if err != nil {
				panic(err)
			}
			jobs = append(jobs, job{r, f, in})
		}
	}
	t0 := time.Now()
	// one slot per (job, repetition): all processes are independent
	results := make([][]*runRes, len(jobs))
	for k := range results {
		results[k] = make([]*runRes, n)
	}
	parallel(len(jobs)*n, 8, func(x int) {
		k, rep := x/n, x%n
		var env []string
		dir := ""
		if rep > 0 && len(perts) > 0 { // the first run in the runner's own environment, the others under the perturbed ones
			env, dir = perts[rep%len(perts)].env, perts[rep%len(perts)].dir
		}
		results[k][rep] = runPlugin(g.plugin, jobs[k].in, env, dir)
	})
	for k, j := range jobs {
		first := results[k][0]
		o.count("c13/param-form/" + strings.ReplaceAll(j.form.label, "=", ":"))
		differs := 0
		var witness *runRes
		wrep := 0
		for rep := 1; rep < n; rep++ {
			res := results[k][rep]
			if !bytes.Equal(res.stdout, first.stdout) || res.exit != first.exit {
				if witness == nil {
					witness, wrep = res, rep
				}
				differs++
			}
		}
		if witness == nil {
			o.propOK += n - 1
			o.nontrivial("c13/param-form/" + j.r.name + "/" + j.form.label)
			continue
		}
		o.withKey(j.r.key()+"/repeat").prop("C13", false, fmt.Sprintf("%s: the same request (%s; file_to_generate %v) repeated in %d fresh processes gives %d responses that differ from the first: run 0 -> %s, run %d -> %s: %s",
			j.r.name, j.form.label, j.r.generate, n, differs, respHash(first), wrep, respHash(witness), diffHint(first, witness)))
		o.count("c13/param-form-differs")
	}
	o.hist["c13/param-form-seconds"] = int(time.Since(t0).Seconds())
	o.hist["c13/param-form-schemas"] = len(idx)
	o.hist["c13/param-form-repetitions"] = n
	return len(jobs) * n
}

func schemaMentions(r *genReq, s string) bool {
	for _, f := range r.files {
		if strings.Contains(f.String(), s) {
			return true
		}
	}
	return false
}

func reverse(xs []string) []string {
	out := make([]string, len(xs))
	for i, x := range xs {
		out[len(xs)-1-i] = x
	}
	return out
}

func diffHint(a, b *runRes) string {
	if a.resp == nil || b.resp == nil {
		return fmt.Sprintf("exit %d/%d, stderr %q / %q", a.exit, b.exit, firstLines(a.stderr, 1), firstLines(b.stderr, 1))
	}
	if a.resp.GetError() != b.resp.GetError() {
		return fmt.Sprintf("error %q vs %q", firstLines(a.resp.GetError(), 1), firstLines(b.resp.GetError(), 1))
	}
	if len(a.resp.File) != len(b.resp.File) {
		return fmt.Sprintf("%d vs %d files", len(a.resp.File), len(b.resp.File))
	}
	for i := range a.resp.File {
		if a.resp.File[i].GetName() != b.resp.File[i].GetName() {
			return fmt.Sprintf("file %d is %s vs %s", i, a.resp.File[i].GetName(), b.resp.File[i].GetName())
		}
		if a.resp.File[i].GetContent() != b.resp.File[i].GetContent() {
			return a.resp.File[i].GetName() + ": " + firstDiff(a.resp.File[i].GetContent(), b.resp.File[i].GetContent())
		}
	}
	return "serialised responses differ"
}

func firstDiff(a, b string) string {
	la, lb := strings.Split(a, "\n"), strings.Split(b, "\n")
	for i := 0; i < len(la) && i < len(lb); i++ {
		if la[i] != lb[i] {
			return fmt.Sprintf("line %d: %q vs %q", i+1, trunc(la[i], 120), trunc(lb[i], 120))
		}
	}
	return fmt.Sprintf("%d vs %d lines", len(la), len(lb))
}

func trunc(s string, n int) string {
	if len(s) > n {
		return s[:n] + "..."
	}
	return s
}

// containsMarker reports an occurrence of an environment marker in emitted text. A marker that is an absolute path
// (the build directory, its parent ...) only counts when it ends at a path-component boundary: "/verif" must not match
// inside the Go import path "github.com/cosmos/cosmos-proto/verifh".
func containsMarker(text, m string) bool {
	if !strings.HasPrefix(m, "/") || strings.HasSuffix(m, "/") {
		return strings.Contains(text, m)
	}
	for off := 0; ; {
		i := strings.Index(text[off:], m)
		if i < 0 {
			return false
		}
		end := off + i + len(m)
		if end == len(text) {
			return true
		}
		c := text[end]
		if !(c == '_' || c == '-' || c == '.' || (c >= '0' && c <= '9') || (c >= 'a' && c <= 'z') || (c >= 'A' && c <= 'Z')) {
			return true
		}
		off = end
	}
}
