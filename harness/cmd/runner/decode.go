package main

// Decode engine: (a) well-typed streams produced by a mutator that preserves well-typedness,
// compared three ways (generated type, dynamicpb reference, model); (b) malformed streams
// (truncations, flips, adversarial lengths, bad tags, deep nesting), compared with the model and
// checked for panics, hangs, over-allocation and safety of whatever was accepted.

import (
	"encoding/hex"
	"bytes"
	"fmt"
	"os"
	"reflect"
	"runtime"
	"strings"

	"google.golang.org/protobuf/encoding/protowire"
	"google.golang.org/protobuf/proto"
	"google.golang.org/protobuf/reflect/protoreflect"
	"google.golang.org/protobuf/types/dynamicpb"
)

func init() { engines["decode"] = engineDecode }

type wrec struct {
	num protowire.Number
	typ protowire.Type
	raw []byte // whole record
	val []byte // payload of a length-delimited record
}

func parseRecs(b []byte) ([]wrec, bool) {
	var out []wrec
	for len(b) > 0 {
		num, typ, n := protowire.ConsumeTag(b)
		if n < 0 {
			return nil, false
		}
		m := protowire.ConsumeFieldValue(num, typ, b[n:])
		if m < 0 {
			return nil, false
		}
		r := wrec{num: num, typ: typ, raw: b[:n+m]}
		if typ == protowire.BytesType {
			v, _ := protowire.ConsumeBytes(b[n:])
			r.val = v
		}
		out = append(out, r)
		b = b[n+m:]
	}
	return out, true
}

func joinRecs(rs []wrec) []byte {
	var b []byte
	for _, r := range rs {
		b = append(b, r.raw...)
	}
	return b
}

func bytesRec(num protowire.Number, payload []byte) wrec {
	b := protowire.AppendTag(nil, num, protowire.BytesType)
	b = protowire.AppendBytes(b, payload)
	return wrec{num: num, typ: protowire.BytesType, raw: b, val: payload}
}

// nonMinimalTag re-encodes the tag varint with redundant continuation bytes
func nonMinimalTag(r *rng, rec wrec) wrec {
	_, _, n := protowire.ConsumeTag(rec.raw)
	tag := append([]byte{}, rec.raw[:n]...)
	extra := 1 + r.intn(10-n)
	if n+extra > 10 {
		extra = 10 - n
	}
	if extra <= 0 {
		return rec
	}
	tag[len(tag)-1] |= 0x80
	for i := 0; i < extra-1; i++ {
		tag = append(tag, 0x80)
	}
	tag = append(tag, 0x00)
	out := rec
	out.raw = append(tag, rec.raw[n:]...)
	return out
}

type dmut struct {
	r  *rng
	rw *rng // the widening decisions draw from a stream of their own (the other operations see the stream they saw before)
	si *schemaInfo
	// statistics of applied operations
	ops map[string]int
}

func (d *dmut) op(name string) { d.ops[name]++ }

func scalarWireType(k protoreflect.Kind) protowire.Type {
	switch k {
	case protoreflect.DoubleKind, protoreflect.Fixed64Kind, protoreflect.Sfixed64Kind:
		return protowire.Fixed64Type
	case protoreflect.FloatKind, protoreflect.Fixed32Kind, protoreflect.Sfixed32Kind:
		return protowire.Fixed32Type
	case protoreflect.StringKind, protoreflect.BytesKind, protoreflect.MessageKind:
		return protowire.BytesType
	}
	return protowire.VarintType
}

// splitPacked turns a packed run into its elements (each as raw value bytes)
func splitPacked(k protoreflect.Kind, payload []byte) ([][]byte, bool) {
	var out [][]byte
	for len(payload) > 0 {
		var n int
		switch scalarWireType(k) {
		case protowire.VarintType:
			_, n = protowire.ConsumeVarint(payload)
		case protowire.Fixed32Type:
			_, n = protowire.ConsumeFixed32(payload)
		case protowire.Fixed64Type:
			_, n = protowire.ConsumeFixed64(payload)
		}
		if n <= 0 {
			return nil, false
		}
		out = append(out, payload[:n])
		payload = payload[n:]
	}
	return out, true
}

// ---- varints wider than the field (a varint of ANY value is well-typed on every varint-kind field: the reference
// keeps the low 32 bits for int32/uint32/sint32/enum and takes != 0 for bool) and non-minimal value varints ----

func isVarintKind(k protoreflect.Kind) bool {
	switch k {
	case protoreflect.BoolKind, protoreflect.EnumKind, protoreflect.Int32Kind, protoreflect.Sint32Kind, protoreflect.Uint32Kind,
		protoreflect.Int64Kind, protoreflect.Sint64Kind, protoreflect.Uint64Kind:
		return true
	}
	return false
}

// varintClass: "32" (value narrower than the varint), "bool", "64"
func varintClass(k protoreflect.Kind) string {
	switch k {
	case protoreflect.BoolKind:
		return "bool"
	case protoreflect.Int64Kind, protoreflect.Sint64Kind, protoreflect.Uint64Kind:
		return "64"
	}
	return "32"
}

// appendVarintN encodes v in exactly n bytes, protowire.SizeVarint(v) <= n <= 10 (redundant continuation bytes; a
// ten-byte form ends in 0x00 or 0x01, which is what the reference accepts)
func appendVarintN(b []byte, v uint64, n int) []byte {
	for i := 0; i < n-1; i++ {
		b = append(b, byte(v&0x7f)|0x80)
		v >>= 7
	}
	return append(b, byte(v))
}

// the patterns put into the bits above a 32-bit field (bit 32.. of the varint): the three bits that still live in the
// fifth byte, the first bit of the sixth, the top bit (ten-byte form), all ones, all but the top
var highPatterns32 = []uint64{1, 2, 4, 8, 1 << 31, 0xffffffff, 0x7fffffff, 0xfffffffe}

// widenValue: a varint value that the field must read exactly as it reads v
// (bool: as true) but that does not fit the field's width
func widenValue(r *rng, k protoreflect.Kind, v uint64) uint64 {
	switch varintClass(k) {
	case "32":
		hi := highPatterns32[r.intn(len(highPatterns32))]
		if r.intn(3) == 0 {
			hi = r.u64()>>32 | 1<<uint(r.intn(32))
		}
		return v&0xffffffff | hi<<32
	case "bool":
		g := []uint64{2, 1 << 7, 1 << 8, 1 << 31, 1 << 32, 1 << 63, 0xfffffffffffffffe, 0xffffffff00000000}[r.intn(8)]
		if r.intn(3) == 0 {
			g = r.u64()&^1 | 2<<uint(r.intn(63))
		}
		return v&1 | g
	}
	return v
}

// widenVarint re-encodes one varint (raw = exactly its bytes) for a field of kind k: garbage above the field's width
// and/or a non-minimal length
func (d *dmut) widenVarint(k protoreflect.Kind, raw []byte, pos string) []byte {
	v, n := protowire.ConsumeVarint(raw)
	if n != len(raw) || !isVarintKind(k) {
		return raw
	}
	r := d.rw
	w := v
	if varintClass(k) != "64" && r.intn(4) != 0 {
		w = widenValue(r, k, v)
	}
	size := protowire.SizeVarint(w)
	if w == v || r.intn(3) == 0 {
		size += 1 + r.intn(10-size+1) // (size 10 stays 10)
		if size > 10 {
			size = 10
		}
	}
	if w == v && size == len(raw) {
		return raw
	}
	if w != v {
		d.op("widen-" + varintClass(k) + "-" + pos)
	} else {
		d.op("pad-varint-" + pos)
	}
	return appendVarintN(nil, w, size)
}

// widenRec: the same for a whole varint record (tag kept)
func (d *dmut) widenRec(k protoreflect.Kind, rec wrec, pos string) wrec {
	if rec.typ != protowire.VarintType || !isVarintKind(k) {
		return rec
	}
	_, _, n := protowire.ConsumeTag(rec.raw)
	out := rec
	out.raw = append(append([]byte{}, rec.raw[:n]...), d.widenVarint(k, rec.raw[n:], pos)...)
	return out
}

// mutate returns a well-typed stream for message mi derived from the well-typed stream b
func (d *dmut) mutate(mi *msgInfo, b []byte, depth int) []byte {
	recs, ok := parseRecs(b)
	if !ok {
		return b
	}
	r := d.r
	var out []wrec
	for _, rec := range recs {
		fd := mi.md.Fields().ByNumber(rec.num)
		if fd == nil {
			out = append(out, rec)
			continue
		}
		// varint-kind fields: garbage in the bits above the field's width, non-minimal lengths (generated types only:
		// inside protobuf-go's own types the reference would be compared with itself)
		if mi.pulsar && !fd.IsMap() && isVarintKind(fd.Kind()) && d.rw.intn(3) == 0 {
			switch {
			case rec.typ == protowire.VarintType:
				pos := "singular"
				if fd.IsList() {
					pos = "unpacked"
				} else if fd.ContainingOneof() != nil {
					pos = "oneof"
				}
				rec = d.widenRec(fd.Kind(), rec, pos)
			case rec.typ == protowire.BytesType && fd.IsList():
				if elems, ok := splitPacked(fd.Kind(), rec.val); ok && len(elems) > 0 {
					for i := range elems {
						if d.rw.intn(2) == 0 {
							elems[i] = d.widenVarint(fd.Kind(), elems[i], "packed")
						}
					}
					rec = bytesRec(rec.num, bytes.Join(elems, nil))
				}
			}
		}
		switch {
		case fd.IsMap() && rec.typ == protowire.BytesType:
			out = append(out, d.mutEntry(fd, rec, depth, mi.pulsar)...)
		case fd.Kind() == protoreflect.MessageKind && rec.typ == protowire.BytesType:
			cmi := d.si.byName[fd.Message().FullName()]
			payload := rec.val
			if depth > 0 && r.intn(2) == 0 {
				payload = d.mutate(cmi, payload, depth-1)
			}
			sub, ok := parseRecs(payload)
			if ok && len(sub) >= 2 && !fd.IsList() && r.intn(2) == 0 {
				// a singular (or oneof member) message split into two records: must merge
				k := 1 + r.intn(len(sub)-1)
				out = append(out, bytesRec(rec.num, joinRecs(sub[:k])), bytesRec(rec.num, joinRecs(sub[k:])))
				if fd.ContainingOneof() != nil {
					d.op("split-oneof-message")
				} else {
					d.op("split-singular-message")
				}
			} else {
				out = append(out, bytesRec(rec.num, payload))
			}
		case fd.IsList() && rec.typ == protowire.BytesType && scalarWireType(fd.Kind()) != protowire.BytesType:
			// packed run: split in two runs, or unpack completely
			elems, ok := splitPacked(fd.Kind(), rec.val)
			if !ok || len(elems) < 2 || r.intn(3) == 0 {
				out = append(out, rec)
				break
			}
			if r.bool() {
				k := 1 + r.intn(len(elems)-1)
				out = append(out, bytesRec(rec.num, bytes.Join(elems[:k], nil)), bytesRec(rec.num, bytes.Join(elems[k:], nil)))
				d.op("split-packed-run")
			} else {
				for _, e := range elems {
					raw := protowire.AppendTag(nil, rec.num, scalarWireType(fd.Kind()))
					out = append(out, wrec{num: rec.num, typ: scalarWireType(fd.Kind()), raw: append(raw, e...)})
				}
				d.op("unpack")
			}
		case !fd.IsList() && rec.typ == protowire.BytesType && (fd.Kind() == protoreflect.BytesKind || fd.Kind() == protoreflect.StringKind) && r.intn(3) == 0:
			// a singular / oneof string or bytes field preceded by an EMPTY occurrence of itself (an encoder never emits
			// that; last value wins) and, sometimes, followed by a third, different occurrence
			out = append(out, bytesRec(rec.num, nil), rec)
			if r.bool() {
				out = append(out, bytesRec(rec.num, append([]byte("zz"), rec.val...)))
			}
			d.op("empty-then-value")
		default:
			out = append(out, rec)
		}
	}
	// zero-valued occurrences of absent singular bytes/string fields, then a value (the first write into a nil field)
	if r.intn(4) == 0 {
		for i := 0; i < mi.md.Fields().Len(); i++ {
			fd := mi.md.Fields().Get(i)
			if fd.IsList() || fd.IsMap() || (fd.Kind() != protoreflect.BytesKind && fd.Kind() != protoreflect.StringKind) {
				continue
			}
			present := false
			for _, rec := range out {
				present = present || rec.num == fd.Number()
			}
			if !present && r.bool() {
				out = append(out, bytesRec(fd.Number(), nil), bytesRec(fd.Number(), []byte("after-empty")))
				d.op("empty-then-value-absent")
			}
		}
	}
	// pack runs of unpacked repeated scalars
	if r.intn(3) == 0 {
		var packed []wrec
		for i := 0; i < len(out); i++ {
			fd := mi.md.Fields().ByNumber(out[i].num)
			if fd != nil && fd.IsList() && !fd.IsMap() && scalarWireType(fd.Kind()) != protowire.BytesType && out[i].typ != protowire.BytesType {
				_, _, n := protowire.ConsumeTag(out[i].raw)
				payload := append([]byte{}, out[i].raw[n:]...)
				j := i + 1
				for j < len(out) && out[j].num == out[i].num && out[j].typ == out[i].typ {
					_, _, n2 := protowire.ConsumeTag(out[j].raw)
					payload = append(payload, out[j].raw[n2:]...)
					j++
				}
				packed = append(packed, bytesRec(out[i].num, payload))
				d.op("pack")
				i = j - 1
				continue
			}
			packed = append(packed, out[i])
		}
		out = packed
	}
	// duplicate a record (last value wins / repeated concatenates / messages merge)
	if len(out) > 0 && r.intn(3) == 0 {
		i := r.intn(len(out))
		out = append(out, out[i])
		d.op("duplicate")
	}
	// unknown records at this level
	for k := r.intn(3); k > 0; k-- {
		u := genUnknownFor(r, mi)
		recs, _ := parseRecs(u)
		pos := r.intn(len(out) + 1)
		out = append(out[:pos], append(recs, out[pos:]...)...)
		d.op("unknown")
	}
	// reorder (stable within one field number so repeated order is kept; across fields anything goes)
	if len(out) > 1 && r.intn(2) == 0 {
		for k := 0; k < len(out); k++ {
			i, j := r.intn(len(out)), r.intn(len(out))
			if i > j {
				i, j = j, i
			}
			conflict := false
			for m := i; m <= j; m++ {
				if out[m].num == out[i].num && m != i || out[m].num == out[j].num && m != j {
					conflict = true
				}
				// oneof members of the same oneof must keep their order too
				fa, fb := mi.md.Fields().ByNumber(out[m].num), mi.md.Fields().ByNumber(out[i].num)
				fc := mi.md.Fields().ByNumber(out[j].num)
				if fa != nil && fa.ContainingOneof() != nil && ((fb != nil && fb.ContainingOneof() == fa.ContainingOneof() && m != i) || (fc != nil && fc.ContainingOneof() == fa.ContainingOneof() && m != j)) {
					conflict = true
				}
			}
			if !conflict {
				out[i], out[j] = out[j], out[i]
			}
		}
		d.op("reorder")
	}
	// (protobuf-go's table-driven decoder re-encodes the tags of unknown fields minimally while its
	// reflection decoder keeps the raw bytes: inside protobuf-go types the two references disagree,
	// so non-minimal tags are only produced inside generated types)
	if len(out) > 0 && r.intn(4) == 0 && mi.pulsar {
		i := r.intn(len(out))
		out[i] = nonMinimalTag(r, out[i])
		d.op("non-minimal-tag")
	}
	return joinRecs(out)
}

// mutEntry rewrites one map entry: reordered / missing / duplicated key and value, unknown subfields
func (d *dmut) mutEntry(fd protoreflect.FieldDescriptor, rec wrec, depth int, widen bool) []wrec {
	r := d.r
	sub, ok := parseRecs(rec.val)
	if !ok {
		return []wrec{rec}
	}
	var key, val []wrec
	for _, s := range sub {
		if s.num == 1 {
			if widen && d.rw.intn(3) == 0 {
				s = d.widenRec(fd.MapKey().Kind(), s, "mapkey")
			}
			key = append(key, s)
		} else if s.num == 2 {
			if widen && d.rw.intn(3) == 0 {
				s = d.widenRec(fd.MapValue().Kind(), s, "mapvalue")
			}
			val = append(val, s)
		}
	}
	if fd.MapValue().Kind() == protoreflect.MessageKind && depth > 0 {
		cmi := d.si.byName[fd.MapValue().Message().FullName()]
		for i := range val {
			if val[i].typ == protowire.BytesType {
				val[i] = bytesRec(2, d.mutate(cmi, val[i].val, depth-1))
			}
		}
	}
	var parts []wrec
	switch r.intn(7) {
	case 0:
		parts = append(append(parts, val...), key...)
		d.op("entry-value-first")
	case 1:
		parts = append(parts, val...)
		d.op("entry-no-key")
	case 2:
		parts = append(parts, key...)
		d.op("entry-no-value")
	case 3:
		parts = append(append(append(parts, key...), val...), val...)
		d.op("entry-dup-value")
	case 4:
		parts = append(append(append(parts, key...), key...), val...)
		d.op("entry-dup-key")
	case 5:
		u, _ := parseRecs(genRecord(r, 1))
		if len(u) > 0 && u[0].num > 2 {
			parts = append(append(append(parts, key...), u...), val...)
			d.op("entry-unknown-subfield")
		} else {
			parts = append(append(parts, key...), val...)
		}
	default:
		parts = append(append(parts, key...), val...)
	}
	return []wrec{bytesRec(rec.num, joinRecs(parts))}
}

type decCtx struct {
	*codecCtx
	modelOK bool // the model covers every message reachable from here (pulsar types only)
}

func reachesNonPulsar(si *schemaInfo, mi *msgInfo, seen map[*msgInfo]bool) bool {
	if seen[mi] {
		return false
	}
	seen[mi] = true
	if !mi.pulsar {
		return true
	}
	for _, fi := range mi.fields {
		var m protoreflect.MessageDescriptor
		if fi.fd.IsMap() {
			m = fi.fd.MapValue().Message()
		} else {
			m = fi.fd.Message()
		}
		if m != nil && reachesNonPulsar(si, si.byName[m.FullName()], seen) {
			return true
		}
	}
	return false
}

// wellTyped: three-way comparison on a well-typed stream
func (c *decCtx) wellTyped(mi *msgInfo, b []byte, merge, discard bool, init *V, what string) {
	si, o := c.si, c.o
	id := si.id + "." + string(mi.md.Name())
	res, q := c.decCase(mi, b, merge, discard, init)
	// reference
	var d *dynamicpb.Message
	if init != nil {
		d = si.toDyn(mi, init)
	} else {
		d = dynamicpb.NewMessage(mi.md)
	}
	rerr, rpan := catchUnmarshal(proto.UnmarshalOptions{Merge: merge, DiscardUnknown: discard}, b, d)
	if rpan != nil {
		o.count("reference_panicked") // protobuf-go v1.34.0's reflective map decoder panics on a key record of the wrong wire type after a good one: no oracle
	}
	if c.modelOK && rpan == nil && (init == nil || !hasF32SNaN(si, mi, init)) {
		// the reference's own answer, for the reference-decoder model (Model/RefDecode.v)
		flags := ""
		if merge {
			flags += "m"
		}
		if discard {
			flags += "d"
		}
		if flags == "" {
			flags = "-"
		}
		iv := "-"
		if init != nil {
			iv = init.String()
		}
		obs := "err"
		if rerr == nil && rpan == nil {
			obs = "ok " + si.normV(mi, si.fromPR(mi, d)).String()
		}
		o.kase("REFDEC", []string{si.id, fmt.Sprint(mi.idx), flags, hx(b), iv}, obs)
	}
	if rerr != nil || rpan != nil {
		o.count("welltyped_rejected_by_reference")
		return // the mutator produced something the reference does not accept: not a well-typed stream
	}
	o.count("welltyped_" + what)
	key := "decode/" + id
	if !strings.HasPrefix(res, "ok") {
		o.withKey(key).prop("C03", false, fmt.Sprintf("%s: well-typed stream %s (%s, merge=%v) rejected (%s); the reference accepts it", id, hx(b), what, merge, res))
		if hasUnknown(si.fromPR(mi, d)) || discard {
			o.withKey(key).prop("C14", false, fmt.Sprintf("%s: well-typed stream %s carrying unknown fields (%s, discard=%v) rejected (%s); the reference accepts it and keeps/drops them", id, hx(b), what, discard, res))
		}
		return
	}
	rawGot := si.fromGo(mi, reflect.ValueOf(q))
	got := si.normV(mi, rawGot)
	want := si.normV(mi, si.fromPR(mi, d))
	gs, ws := got.String(), want.String()
	o.withKey(key).prop("C03", gs == ws, fmt.Sprintf("%s: (%s, merge=%v discard=%v init=%v) differs from the reference at %s; stream %s decodes to %s, reference %s", id, what, merge, discard, init != nil, diffCtx(gs, ws), hx(b), gs, ws))
	// C14: unknown bytes at every level are part of the comparison above; additionally the
	// re-encoding emits them unchanged after the known fields
	if !discard && gs == ws {
		re := catchMarshal(proto.MarshalOptions{Deterministic: true}, q)
		rr := catchMarshal(proto.MarshalOptions{Deterministic: true}, d)
		if re.err == nil && re.pan == nil && rr.err == nil && !hasF32SNaN(si, mi, rawGot) {
			o.withKey(key).prop("C14", bytes.Equal(re.b, rr.b), fmt.Sprintf("%s: re-encoding after decoding %s gives %s, reference %s", id, hx(b), hx(re.b), hx(rr.b)))
			unk := q.ProtoReflect().GetUnknown()
			o.withKey(key).prop("C14", bytes.HasSuffix(re.b, unk), fmt.Sprintf("%s: unknown bytes %s are not the tail of the re-encoding %s", id, hx(unk), hx(re.b)))
		}
	}
	if discard {
		o.withKey(key).prop("C14", !hasUnknown(got), fmt.Sprintf("%s: DiscardUnknown left unknown bytes in %s", id, gs))
	}
}

// limited: decoding under an explicit RecursionLimit L (and DiscardUnknown): acceptance, value and unknown-field handling
// must be the reference's at every L, in particular when the nesting depth of the stream equals L (the last permitted
// level) and one more (rejected)
func (c *decCtx) limited(mi *msgInfo, b []byte, limit int, discard bool) {
	si, o := c.si, c.o
	id := si.id + "." + string(mi.md.Name())
	key := "decode-limit/" + id
	q := reflect.New(mi.goType).Interface().(proto.Message)
	opts := proto.UnmarshalOptions{RecursionLimit: limit, DiscardUnknown: discard}
	err, pan := catchUnmarshal(opts, append([]byte{}, b...), q)
	d := dynamicpb.NewMessage(mi.md)
	rerr, rpan := catchUnmarshal(opts, b, d)
	res := "err"
	if pan != nil {
		res = "panic"
	} else if err == nil {
		res = "ok " + si.foreignNorm(mi, si.fromGo(mi, reflect.ValueOf(q))).String()
	}
	flags := "-"
	if discard {
		flags = "d"
	}
	if c.modelOK {
		o.kase("DECL", []string{si.id, fmt.Sprint(mi.idx), flags, fmt.Sprint(limit), hx(b)}, res)
	}
	o.count(fmt.Sprintf("limited_L%d_%s", limit, strings.Fields(res)[0]))
	o.withKey(key).prop("C06", pan == nil, fmt.Sprintf("%s: Unmarshal(RecursionLimit=%d) of %s panics: %v", id, limit, hx(b), pan))
	if rpan != nil || pan != nil {
		return
	}
	o.withKey(key).prop("C06", (err == nil) == (rerr == nil), fmt.Sprintf("%s: RecursionLimit=%d discard=%v on %s: generated decoder says %v, the reference says %v", id, limit, discard, hx(b), err, rerr))
	if err != nil || rerr != nil {
		return
	}
	got := si.normV(mi, si.fromGo(mi, reflect.ValueOf(q)))
	want := si.normV(mi, si.fromPR(mi, d))
	o.withKey(key).prop("C03", got.String() == want.String(), fmt.Sprintf("%s: RecursionLimit=%d discard=%v: %s decodes to %s, reference %s", id, limit, discard, hx(b), got, want))
	if discard {
		o.withKey(key).prop("C14", !hasUnknown(got), fmt.Sprintf("%s: RecursionLimit=%d DiscardUnknown left unknown bytes at some level: %s decodes to %s", id, limit, hx(b), got))
	} else {
		o.withKey(key).prop("C14", got.String() == want.String(), fmt.Sprintf("%s: RecursionLimit=%d: unknown bytes differ from the reference's: %s vs %s", id, limit, got, want))
	}
}

func hasUnknown(v *V) bool {
	if v == nil {
		return false
	}
	if v.K == 'm' && len(v.Unk) > 0 {
		return true
	}
	for _, e := range v.L {
		if hasUnknown(e) {
			return true
		}
	}
	return v.P != nil && hasUnknown(v.P)
}

var allocSink proto.Message

// malformed: arbitrary bytes; outcome vs model; totality and safety of what was accepted
func (c *decCtx) malformed(mi *msgInfo, b []byte, class string) {
	si, o := c.si, c.o
	id := si.id + "." + string(mi.md.Name())
	key := "decode/" + id
	var res string
	var q proto.Message
	var ms0, ms1 runtime.MemStats
	runtime.ReadMemStats(&ms0)
	if c.modelOK {
		res, q = c.decCase(mi, b, false, false, nil)
	} else {
		q = reflect.New(mi.goType).Interface().(proto.Message)
		err, pan := catchUnmarshal(proto.UnmarshalOptions{}, append([]byte{}, b...), q)
		res = "ok"
		if pan != nil {
			res = "panic"
		} else if err != nil {
			res = "err"
		}
	}
	runtime.ReadMemStats(&ms1)
	allocSink = q
	if c.modelOK && class != "deep" {
		// the reference's verdict on the same bytes, for the reference-decoder model (parser strictness:
		// overflowing varints, field numbers, group ends, UTF-8, lengths)
		d := dynamicpb.NewMessage(mi.md)
		rerr, rpan := catchUnmarshal(proto.UnmarshalOptions{}, b, d)
		obs := "err"
		if rerr == nil && rpan == nil {
			obs = "ok " + si.normV(mi, si.fromPR(mi, d)).String()
		}
		if rpan == nil {
			o.kase("REFDEC", []string{si.id, fmt.Sprint(mi.idx), "-", hx(b), "-"}, obs)
		} else {
			o.count("reference_panicked")
		}
	}
	alloc := ms1.TotalAlloc - ms0.TotalAlloc
	o.count("malformed_" + class + "_" + strings.Fields(res)[0])
	k := len(b)
	if k > 10 {
		k = 10
	}
	o.nontrivial(id + "/" + class + "/" + strings.Fields(res)[0] + "/" + hx(b[:k]))
	o.withKey(key).prop("C06", res != "panic", fmt.Sprintf("Unmarshal(%s) into %s panics", hx(b), id))
	// rendering the result costs memory too: the bound is deliberately generous
	bound := uint64(16384*len(b) + (4 << 20))
	if class == "mapoverrun" { // these inputs must be rejected early: anything near the input size is suspicious
		bound = uint64(512*len(b) + (256 << 10))
	}
	o.withKey(key).prop("C06", alloc <= bound, fmt.Sprintf("Unmarshal of %d bytes (%s) into %s allocated %d bytes (class %s)", len(b), hx(b[:minInt(len(b), 48)]), id, alloc, class))
	if strings.HasPrefix(res, "ok") && class != "deep" { // (sizing a 10^4-deep message is quadratic: kept out)
		var pan interface{}
		func() {
			defer func() { pan = recover() }()
			_ = proto.Size(q)
			if _, err := (proto.MarshalOptions{Deterministic: true}).Marshal(q); err != nil {
				_ = err // invalid UTF-8 in nested protobuf-go types may legitimately fail
			}
			_, _ = proto.Marshal(q)
			_ = proto.Equal(q, q)
			_ = proto.Equal(q, proto.Clone(q))
			q.ProtoReflect().Range(func(fd protoreflect.FieldDescriptor, v protoreflect.Value) bool { return true })
		}()
		o.withKey(key).prop("C06", pan == nil, fmt.Sprintf("message accepted from %s into %s cannot be sized/marshalled/compared/ranged: %v", hx(b), id, pan))
	}
	// depth: whatever the reference rejects for nesting must be rejected
	if class == "deep" {
		d := dynamicpb.NewMessage(mi.md)
		rerr := proto.Unmarshal(b, d)
		if rerr != nil {
			o.withKey(key).prop("C06", !strings.HasPrefix(res, "ok"), fmt.Sprintf("%s: %d bytes of nested messages accepted although the reference rejects them (%v)", id, len(b), rerr))
		} else {
			o.withKey(key).prop("C06", strings.HasPrefix(res, "ok"), fmt.Sprintf("%s: %d bytes of nested messages rejected although the reference accepts them", id, len(b)))
		}
	}
}

// sampleScalar: the value bytes (after the tag) of one well-typed occurrence of a scalar of kind k; i varies the value
func sampleScalar(k protoreflect.Kind, i int) []byte {
	switch scalarWireType(k) {
	case protowire.Fixed32Type:
		return protowire.AppendFixed32(nil, uint32(i)*0x01010101+1)
	case protowire.Fixed64Type:
		return protowire.AppendFixed64(nil, uint64(i)*0x0101010101010101+1)
	case protowire.BytesType:
		return protowire.AppendBytes(nil, []byte{'k', byte('a' + i%26)})
	}
	if k == protoreflect.BoolKind {
		return []byte{byte(i & 1)}
	}
	return protowire.AppendVarint(nil, uint64(i%100))
}

func scalarRec(num protowire.Number, k protoreflect.Kind, val []byte) []byte {
	return append(protowire.AppendTag(nil, num, scalarWireType(k)), val...)
}

// wideVarints: every varint-kind position of the message (singular, oneof member, repeated unpacked / packed / a run
// of several, map key, map value) x a fixed table of (value, length) pairs in which the varint is wider than the
// field: garbage in the bits above the width for the 32-bit kinds, enum and bool, boundary values and redundant
// continuation bytes for all. All of them are well-typed; the reference truncates.
func (c *decCtx) wideVarints(mi *msgInfo) {
	r := newRng(c.cfg.seed, "decode-widevarint/"+c.si.id+"."+string(mi.md.Name()))
	type vn struct {
		v uint64
		n int // encoded length (0 = minimal)
	}
	table := func(k protoreflect.Kind) []vn {
		var t []vn
		switch varintClass(k) {
		case "32":
			lows := []uint64{0, 1, 2, 0x7fffffff, 0x80000000, 0xffffffff, r.u64() & 0xffffffff}
			for i, lo := range lows {
				for j, hi := range highPatterns32 {
					if (i+j)%3 == 0 || lo <= 1 { // (a third of the grid, all of it for the smallest values)
						t = append(t, vn{lo | hi<<32, 0})
					}
				}
				t = append(t, vn{lo | (r.u64()>>32|1)<<32, 0})
			}
			t = append(t, vn{1 | 1<<32, 10}, vn{0xffffffff, 10}, vn{2, 5 + r.intn(6)})
		case "bool":
			for _, v := range []uint64{2, 3, 0x80, 0x100, 1 << 31, 1 << 32, 1<<32 | 1, 1 << 63, 1<<63 | 1, 0xfffffffffffffffe, 0xffffffffffffffff, 0xffffffff00000000, r.u64() &^ 1 | 2} {
				t = append(t, vn{v, 0})
			}
			t = append(t, vn{0, 2}, vn{0, 5}, vn{0, 10}, vn{1, 2}, vn{1, 10}, vn{2, 10}, vn{1 << 32, 10})
		default:
			for _, v := range []uint64{0, 1, 1 << 31, 1 << 32, 1<<32 | 1, 1<<63 - 1, 1 << 63, 1<<63 | 1, 0xfffffffffffffffe, 0xffffffffffffffff, r.u64()} {
				t = append(t, vn{v, 0})
				if s := protowire.SizeVarint(v); s < 10 {
					t = append(t, vn{v, s + 1 + r.intn(10-s)})
				}
			}
		}
		return t
	}
	enc := func(x vn) []byte {
		n := x.n
		if s := protowire.SizeVarint(x.v); n < s {
			n = s
		}
		return appendVarintN(nil, x.v, n)
	}
	run := func(b []byte, k protoreflect.Kind, pos string) {
		c.o.count("widevarint_" + varintClass(k) + "_" + pos)
		c.wellTyped(mi, b, false, false, nil, "widevarint")
	}
	for _, fi := range mi.fields {
		fd := fi.fd
		num := fd.Number()
		switch {
		case fd.IsMap():
			kk, vk := fd.MapKey().Kind(), fd.MapValue().Kind()
			val := []byte{}
			if vk != protoreflect.MessageKind {
				val = sampleScalar(vk, 7)
			} else {
				val = protowire.AppendBytes(nil, nil)
			}
			if isVarintKind(kk) {
				for _, x := range table(kk) {
					e := append(scalarRec(1, kk, enc(x)), scalarRec(2, vk, val)...)
					run(bytesRec(num, e).raw, kk, "mapkey")
				}
			}
			if isVarintKind(vk) {
				for i, x := range table(vk) {
					e := append(scalarRec(1, kk, sampleScalar(kk, i)), scalarRec(2, vk, enc(x))...)
					if i%3 == 1 { // value first
						e = append(scalarRec(2, vk, enc(x)), scalarRec(1, kk, sampleScalar(kk, i))...)
					}
					run(bytesRec(num, e).raw, vk, "mapvalue")
				}
			}
		case !isVarintKind(fd.Kind()):
		case fd.IsList():
			t := table(fd.Kind())
			var all []byte
			for i, x := range t {
				run(scalarRec(num, fd.Kind(), enc(x)), fd.Kind(), "unpacked")
				run(bytesRec(num, enc(x)).raw, fd.Kind(), "packed")
				if i%2 == 0 {
					all = append(all, enc(x)...)
				}
			}
			run(bytesRec(num, all).raw, fd.Kind(), "packed-run")
			// a run of wide elements between narrow ones, packed then unpacked occurrences of the same field
			mixed := append(bytesRec(num, append([]byte{1}, all...)).raw, scalarRec(num, fd.Kind(), enc(t[len(t)/2]))...)
			run(append(mixed, bytesRec(num, []byte{2}).raw...), fd.Kind(), "packed-mixed")
		default:
			pos := "singular"
			if fd.ContainingOneof() != nil {
				pos = "oneof"
			}
			for i, x := range table(fd.Kind()) {
				b := scalarRec(num, fd.Kind(), enc(x))
				if i%4 == 3 { // preceded by a narrow occurrence of itself (last one wins)
					b = append(scalarRec(num, fd.Kind(), []byte{1}), b...)
				}
				run(b, fd.Kind(), pos)
			}
		}
	}
}

// goElem: bytes one element of a Go slice of this field's type occupies (the part that is copied when the slice grows)
func goElem(fd protoreflect.FieldDescriptor) int {
	switch fd.Kind() {
	case protoreflect.BoolKind:
		return 1
	case protoreflect.Int32Kind, protoreflect.Sint32Kind, protoreflect.Uint32Kind, protoreflect.EnumKind,
		protoreflect.FloatKind, protoreflect.Fixed32Kind, protoreflect.Sfixed32Kind:
		return 4
	case protoreflect.StringKind:
		return 16
	case protoreflect.BytesKind:
		return 24
	}
	return 8
}

// goFixed: bytes one occurrence may allocate once, outside any growing slice: the pointee of a message (a new struct,
// rounded up generously to its size class, plus what the nested Unmarshal call itself allocates: measured ~190 bytes
// per occurrence of an empty 40-byte message), the copy of a short string/bytes payload
func (c *decCtx) goFixed(fd protoreflect.FieldDescriptor) int {
	switch fd.Kind() {
	case protoreflect.MessageKind, protoreflect.GroupKind:
		if cmi := c.si.byName[fd.Message().FullName()]; cmi != nil && cmi.goType != nil {
			return 2*int(cmi.goType.Size()) + 256
		}
		return 2048
	case protoreflect.StringKind, protoreflect.BytesKind:
		return 16
	}
	return 0
}

// manyOcc: a (valid) stream of nrec occurrences of one field. C06 wants memory in proportion to the input: what
// Unmarshal itself allocates (runtime.MemStats.TotalAlloc, monotone, read around the call only) is bounded by a
// linear function of the input: per occurrence 6*elem (elem = bytes of slice element the occurrence adds; append
// grows by 1.25x..2x and rounds up to a size class, i.e. allocates <= ~6x the final size in total: measured 3.8x at
// 2 000 elements, 4.6x at 20 000) + fixed (what the occurrence allocates once: a struct, a wrapper, a short string)
// + 16, and 64 KiB for everything that happens once. With records of r bytes this is c*len(input) + 64 KiB for
// c = (6*elem+fixed+16)/r. Quadratic behaviour exceeds it by more than an order of magnitude at 2 000 records.
func (c *decCtx) manyOcc(mi *msgInfo, b []byte, nrec, elem, fixed int, what string) {
	si, o := c.si, c.o
	id := si.id + "." + string(mi.md.Name())
	q := reflect.New(mi.goType).Interface().(proto.Message)
	in := append([]byte{}, b...)
	desc := fmt.Sprintf("Unmarshal of %d occurrences (%s, %d bytes: %s...) into %s does not return", nrec, what, len(b), hx(b[:minInt(len(b), 48)]), id)
	var ms0, ms1 runtime.MemStats
	var err error
	var pan interface{}
	o.guard("C06", "hang/"+si.id, desc, func() {
		runtime.ReadMemStats(&ms0)
		err, pan = catchUnmarshal(proto.UnmarshalOptions{}, in, q)
		runtime.ReadMemStats(&ms1)
	})
	allocSink = q
	alloc := ms1.TotalAlloc - ms0.TotalAlloc
	bound := uint64(nrec*(6*elem+fixed+16) + (64 << 10))
	o.count("manyocc_" + what)
	if nrec > 5000 {
		o.count("manyocc_long")
	}
	if pan == nil && err == nil {
		o.count("manyocc_accepted")
		// (slope actually needed, for the histogram: bytes allocated per input byte, next power of two)
		o.count(fmt.Sprintf("manyocc_alloc_per_input_byte_lt_%d", 1<<uint(bitsLen(uint(alloc)/uint(len(b)+1)))))
	}
	if os.Getenv("VERIF_DEBUG_ALLOC") != "" {
		fmt.Fprintf(os.Stderr, "MANYOCC %s %s nrec=%d len=%d elem=%d fixed=%d alloc=%d bound=%d ratio=%.2f err=%v\n", id, what, nrec, len(b), elem, fixed, alloc, bound, float64(alloc)/float64(bound), err)
	}
	o.nontrivial(id + "/manyocc/" + what + "/" + hx(b[:minInt(len(b), 10)]))
	o.withKey("decode/"+id).prop("C06", pan == nil, fmt.Sprintf("Unmarshal of %d occurrences of one field (%s; %s repeated) into %s panics: %v", nrec, what, hx(b[:minInt(len(b), 24)]), id, pan))
	stream := hx(b)
	if len(b) > 32<<10 {
		stream = hx(b[:256]) + fmt.Sprintf("... (%d more bytes: the records go on in the same way)", len(b)-256)
	}
	o.withKey("decode/"+id).prop("C06", alloc <= bound, fmt.Sprintf("Unmarshal of %d bytes = %d occurrences of one field (%s) into %s allocated %d bytes, out of proportion to the input (linear bound %d = %d*(6*%d+%d+16) + 64K); stream %s", len(b), nrec, what, id, alloc, bound, nrec, elem, fixed, stream))
	if pan != nil {
		return
	}
	// values and errors of the whole stream against the reference (no model line: the extracted model is quadratic in
	// the number of records - up to 40 s for 2 000 map entries - so it sees the first modelRecs records below)
	d := dynamicpb.NewMessage(mi.md)
	rerr, rpan := catchUnmarshal(proto.UnmarshalOptions{}, b, d)
	if rpan != nil {
		o.count("reference_panicked")
	} else if rerr != nil {
		o.count("welltyped_rejected_by_reference")
	} else if err != nil {
		o.withKey("decode/"+id).prop("C03", false, fmt.Sprintf("%s: well-typed stream of %d occurrences of one field (%s; starts %s) rejected (%v); the reference accepts it", id, nrec, what, hx(b[:minInt(len(b), 24)]), err))
	} else {
		gs := si.normV(mi, si.fromGo(mi, reflect.ValueOf(q))).String()
		ws := si.normV(mi, si.fromPR(mi, d)).String()
		o.count("welltyped_manyocc-full")
		o.withKey("decode/"+id).prop("C03", gs == ws, fmt.Sprintf("%s: %d occurrences of one field (%s; starts %s): differs from the reference at %s", id, nrec, what, hx(b[:minInt(len(b), 24)]), diffCtx(gs, ws)))
	}
	if recs, ok := parseRecs(b); ok {
		const modelRecs = 256
		if len(recs) > modelRecs {
			recs = recs[:modelRecs]
		}
		c.wellTyped(mi, joinRecs(recs), false, false, nil, "manyocc")
	}
}

func bitsLen(x uint) int {
	n := 0
	for ; x > 0; x >>= 1 {
		n++
	}
	return n
}

// manyOccurrences: class "manyocc": streams of k occurrences of one field. perClass > 0 limits the number of fields
// per (message, kind of stream), rotating with the seed; kBig > 0 repeats the first chosen stream of every kind
// with kBig occurrences.
func (c *decCtx) manyOccurrences(mi *msgInfo, k, perClass, kBig int) {
	type job struct {
		what        string
		rec         func(i int) []byte
		div         int // records = k/div (+1)
		elem, fixed int
	}
	var jobs []job
	add := func(what string, div, elem, fixed int, rec func(i int) []byte) {
		jobs = append(jobs, job{what, rec, div, elem, fixed})
	}
	for _, fi := range mi.fields {
		fd := fi.fd
		num := fd.Number()
		kind := fd.Kind()
		switch {
		case fd.IsMap():
			kk, vt := fd.MapKey().Kind(), fd.MapValue()
			vk := vt.Kind()
			fixed := c.goFixed(vt) + c.goFixed(fd.MapKey())
			val := func(i int) []byte {
				if vk == protoreflect.MessageKind {
					return protowire.AppendBytes(nil, nil)
				}
				return sampleScalar(vk, i)
			}
			add("map-same-key", 1, 0, fixed, func(i int) []byte {
				return bytesRec(num, append(scalarRec(1, kk, sampleScalar(kk, 5)), scalarRec(2, vk, val(3))...)).raw
			})
			// two keys alternating, values changing, value before key now and then
			add("map-two-keys", 1, 0, fixed, func(i int) []byte {
				if i%3 == 2 {
					return bytesRec(num, append(scalarRec(2, vk, val(i)), scalarRec(1, kk, sampleScalar(kk, i%2))...)).raw
				}
				return bytesRec(num, append(scalarRec(1, kk, sampleScalar(kk, i%2)), scalarRec(2, vk, val(i))...)).raw
			})
		case fd.IsList() && scalarWireType(kind) != protowire.BytesType:
			elem := goElem(fd)
			one := func(i int) []byte { return bytesRec(num, sampleScalar(kind, i)).raw }
			unp := func(i int) []byte { return scalarRec(num, kind, sampleScalar(kind, i)) }
			add("packed-one-element", 1, elem, 0, one)
			add("unpacked", 1, elem, 0, unp)
			add("packed-unpacked-alternating", 1, elem, 0, func(i int) []byte {
				if i%2 == 0 {
					return one(i)
				}
				return unp(i)
			})
			add("packed-three-elements", 3, 3*elem, 0, func(i int) []byte {
				return bytesRec(num, append(append(sampleScalar(kind, i), sampleScalar(kind, i+1)...), sampleScalar(kind, i+2)...)).raw
			})
			add("packed-one-element-and-empty", 1, elem, 0, func(i int) []byte {
				if i%5 == 4 {
					return bytesRec(num, nil).raw // an empty packed occurrence in between
				}
				return one(i)
			})
		case fd.IsList() && kind != protoreflect.MessageKind:
			add("repeated-bytes", 1, goElem(fd), c.goFixed(fd), func(i int) []byte { return scalarRec(num, kind, sampleScalar(kind, i)) })
		case fd.IsList():
			add("repeated-message", 1, 8, c.goFixed(fd), func(i int) []byte { return bytesRec(num, nil).raw })
		case kind == protoreflect.MessageKind:
			// occurrences of a singular (or oneof member) message: all merged into one; every other payload sets a
			// numeric field of the child when it has one
			var payload []byte
			if cmi := c.si.byName[fd.Message().FullName()]; cmi != nil {
				for _, cf := range cmi.fields {
					if !cf.fd.IsList() && !cf.fd.IsMap() && scalarWireType(cf.fd.Kind()) != protowire.BytesType && cf.fd.Kind() != protoreflect.GroupKind {
						payload = scalarRec(cf.fd.Number(), cf.fd.Kind(), sampleScalar(cf.fd.Kind(), 1))
						break
					}
				}
			}
			what, fixed := "singular-message-merge", 128
			if fd.ContainingOneof() != nil {
				what, fixed = "oneof-message-merge", 16+c.goFixed(fd) // (a struct and a wrapper per occurrence)
			}
			add(what, 1, 0, fixed, func(i int) []byte {
				if i%2 == 0 {
					return bytesRec(num, nil).raw
				}
				return bytesRec(num, payload).raw
			})
		default:
			what, fixed := "singular-replaced", c.goFixed(fd)
			if fixed > 0 {
				what = "singular-bytes-replaced"
			}
			if fd.ContainingOneof() != nil {
				what, fixed = "oneof-member-replaced", 32+c.goFixed(fd) // (a wrapper per occurrence)
			}
			add(what, 1, 0, fixed, func(i int) []byte { return scalarRec(num, kind, sampleScalar(kind, i)) })
		}
	}
	// members of one oneof alternating (each occurrence clears the other)
	for i := 0; i < mi.md.Oneofs().Len(); i++ {
		od := mi.md.Oneofs().Get(i)
		if od.IsSynthetic() || od.Fields().Len() < 2 {
			continue
		}
		fixed := 0
		for j := 0; j < od.Fields().Len(); j++ {
			fixed = maxInt(fixed, 32+c.goFixed(od.Fields().Get(j)))
		}
		m := od.Fields().Len()
		add("oneof-members-alternating", 1, 0, fixed, func(i int) []byte {
			fd := od.Fields().Get(i % m)
			if fd.Kind() == protoreflect.MessageKind || fd.Kind() == protoreflect.GroupKind {
				return bytesRec(fd.Number(), nil).raw
			}
			return scalarRec(fd.Number(), fd.Kind(), sampleScalar(fd.Kind(), i))
		})
	}
	// selection
	byWhat := map[string][]job{}
	var order []string
	for _, j := range jobs {
		if _, ok := byWhat[j.what]; !ok {
			order = append(order, j.what)
		}
		byWhat[j.what] = append(byWhat[j.what], j)
	}
	run := func(j job, n int) {
		n = n/j.div + 1
		var b []byte
		for i := 0; i < n; i++ {
			b = append(b, j.rec(i)...)
		}
		c.manyOcc(mi, b, n, j.elem, j.fixed, j.what)
	}
	for wi, what := range order {
		js := byWhat[what]
		take := len(js)
		if perClass > 0 && perClass < take {
			take = perClass
		}
		off := (int(c.cfg.seed%1000) + 3*wi) % len(js)
		for t := 0; t < take; t++ {
			run(js[(off+t)%len(js)], k)
		}
		if kBig > 0 {
			run(js[off], kBig)
		}
	}
}

func maxInt(a, b int) int {
	if a > b {
		return a
	}
	return b
}

// nest wraps payload n times in field num (length-delimited)
func nest(num protowire.Number, n int, inner []byte) []byte {
	b := inner
	for i := 0; i < n; i++ {
		t := protowire.AppendTag(nil, num, protowire.BytesType)
		t = protowire.AppendVarint(t, uint64(len(b)))
		b = append(t, b...)
	}
	return b
}

var decodeRegressions = map[string][]string{
	// a well-known type's bytes field: value then explicit empty occurrence (protobuf-go stores nil, the model an empty slice)
	"vw.Wk": {"0a0712037a7a201200", "0a021200", "4a050a01610a00", "4a020a00", "22050a01611200"},
	// map entry: good key, then a key record of the wrong wire type: protobuf-go v1.34.0's reflective decoder panics (no oracle)
	"vm.Rm": {"0a0808dc1a0dc19bbe07", "0a0808dc1a0dc19bbe071200188080808001"},
}

func engineDecode(cfg config, o *out) {
	schemas := loadSchemas()
	o.hist["programs"] = len(schemas)
	ops := map[string]int{}
	for _, si := range schemas {
		o.raw("SCHEMA\t" + si.id + "\t=\t" + si.sexp())
		cc := &codecCtx{o: o, si: si, r: newRng(cfg.seed, "decode/"+si.id), cfg: cfg}
		g := &vgen{r: cc.r, si: si}
		mut := &dmut{r: cc.r, rw: newRng(cfg.seed, "decode-widen/"+si.id), si: si, ops: ops}
		for _, mi := range si.roots() {
			c := &decCtx{codecCtx: cc, modelOK: !reachesNonPulsar(si, mi, map[*msgInfo]bool{})}
			n := 25
			if cfg.thorough() {
				n = 120
			}
			if len(mi.fields) == 0 {
				n = 3
			}
			// minimised streams on which model and implementation once disagreed (run first, every tier)
			for _, h := range decodeRegressions[si.id+"."+string(mi.md.Name())] {
				b, _ := hex.DecodeString(h)
				c.wellTyped(mi, b, false, false, nil, "regression")
			}
			// varints wider than the field, at every varint-kind position
			c.wideVarints(mi)
			var encs [][]byte
			for k := 0; k < n; k++ {
				v := g.msg(mi, 3, 3+cc.r.intn(6))
				d := si.toDyn(mi, v)
				enc, err := proto.MarshalOptions{Deterministic: true}.Marshal(d) // (replayable: no map-order randomness in the inputs)
				if err != nil {
					continue
				}
				encs = append(encs, enc)
				// (a) well-typed
				m1 := mut.mutate(mi, enc, 3)
				c.wellTyped(mi, m1, false, false, nil, "mutated")
				if k%3 == 0 {
					c.wellTyped(mi, mut.mutate(mi, m1, 2), false, true, nil, "mutated-discard")
				}
				if k%5 == 0 {
					// explicit recursion limits around the stream's own nesting depth (values are generated 3 levels deep)
					for _, L := range []int{1, 2, 3, 4, 5} {
						c.limited(mi, m1, L, k%2 == 0)
					}
				}
				if k%2 == 0 && len(encs) > 1 {
					// concatenation = merge; and Merge into a non-empty message
					other := encs[cc.r.intn(len(encs))]
					c.wellTyped(mi, append(append([]byte{}, other...), m1...), false, false, nil, "concat")
					init := g.msg(mi, 2, 4)
					c.wellTyped(mi, m1, true, false, init, "merge-into")
				}
			}
			// (b) malformed
			for _, enc := range encs {
				if len(enc) == 0 {
					continue
				}
				step := 1
				if !cfg.thorough() && len(enc) > 24 {
					step = len(enc) / 24
				} else if len(enc) > 160 {
					step = len(enc) / 160
				}
				for cut := 0; cut < len(enc); cut += step {
					c.malformed(mi, enc[:cut], "trunc")
				}
				for k := 0; k < 6; k++ {
					m := append([]byte{}, enc...)
					m[cc.r.intn(len(m))] ^= byte(1 << uint(cc.r.intn(8)))
					c.malformed(mi, m, "flip")
				}
				// adversarial length in front of the tail
				if !cfg.thorough() && len(encs) > 8 && cc.r.intn(3) != 0 {
					continue // quick: the adversarial-length sweep on every third encoding
				}
				pos := cc.r.intn(len(enc))
				lens := []uint64{1 << 31, 1<<63 - 1, 1 << 63, 1<<64 - 1, uint64(len(enc)), uint64(len(enc) - pos + 1)}
				for n := 1; n <= 16; n++ { // negative lengths that move the index back by at most what the record consumed
					lens = append(lens, uint64(-int64(n)))
				}
				unknownNum := protowire.Number(536870911)
				for mi.md.Fields().ByNumber(unknownNum) != nil {
					unknownNum--
				}
				for _, l := range lens {
					if f := mi.md.Fields(); f.Len() > 0 {
						fd := f.Get(cc.r.intn(f.Len()))
						m := append([]byte{}, enc[:pos]...)
						m = protowire.AppendTag(m, fd.Number(), protowire.BytesType)
						m = protowire.AppendVarint(m, l)
						m = append(m, enc[pos:]...)
						c.malformed(mi, m, "advlen")
					}
					for _, num := range []protowire.Number{unknownNum, 15} { // through Skip (1- and 5-byte tags)
						if mi.md.Fields().ByNumber(num) != nil {
							continue
						}
						m := append([]byte{}, enc[:pos]...)
						m = protowire.AppendTag(m, num, protowire.BytesType)
						m = protowire.AppendVarint(m, l)
						m = append(m, enc[pos:]...)
						c.malformed(mi, m, "advlen-unknown")
					}
				}
			}
			// every field number with every wire type and a short tail: wrong wire types, field 0, bad types
			for i := 0; i <= mi.md.Fields().Len(); i++ {
				num := protowire.Number(0)
				if i < mi.md.Fields().Len() {
					num = mi.md.Fields().Get(i).Number()
				}
				for wt := 0; wt < 8; wt++ {
					for _, tail := range [][]byte{{}, {0x00}, {0x01, 0x00}, {0x02, 0x08, 0x01}, {0x05, 0x08, 0x01, 0x10, 0x02, 0xff}, {0xff, 0xff, 0xff, 0xff, 0xff, 0xff, 0xff, 0xff, 0xff, 0x01}, {0x0a, 0x02, 0x08, 0x01, 0x08, 0x96, 0x01, 0x12, 0x00}, {0x80, 0x80, 0x80, 0x80, 0x80, 0x80, 0x80, 0x80, 0x80, 0x80, 0x01}} {
						b := protowire.AppendVarint(nil, uint64(num)<<3|uint64(wt))
						c.malformed(mi, append(b, tail...), "tagsweep")
					}
				}
			}
			// field numbers that alias a known number modulo 2^32, or exceed 2^29-1
			if mi.md.Fields().Len() > 0 {
				fd := mi.md.Fields().Get(0)
				for _, w := range []uint64{(uint64(fd.Number()) + 1<<32) << 3, (uint64(fd.Number()) + 1<<29) << 3, 1 << 32 << 3, (1<<29 + 5) << 3, (1<<61 - 1) << 3} {
					b := protowire.AppendVarint(nil, w|uint64(scalarWireType(fd.Kind())))
					c.malformed(mi, append(b, 0x01, 0x00, 0x00, 0x00, 0x00, 0x00, 0x00, 0x00), "bigtag")
				}
			}
			// map entries whose key or value claims the bytes that FOLLOW the entry (each later record is read again by the
			// enclosing loop if the subfield is bounded by the buffer instead of the entry): windows over n records
			for _, fi := range mi.fields {
				fd := fi.fd
				if !fd.IsMap() {
					continue
				}
				for _, n := range []int{2, 5, 18, 300} {
					for variant := 0; variant < 3; variant++ {
						var recs [][]byte
						ok := true
						for i := 0; i < n && ok; i++ {
							// the entry declares only its own header bytes; the subfield length covers everything after it
							var sub []byte
							switch variant {
							case 0: // over-long key (length-delimited keys only)
								if fd.MapKey().Kind() != protoreflect.StringKind {
									ok = false
									continue
								}
								sub = protowire.AppendTag(nil, 1, protowire.BytesType)
							case 1: // over-long value (length-delimited values only)
								k := fd.MapValue().Kind()
								if k != protoreflect.StringKind && k != protoreflect.BytesKind && k != protoreflect.MessageKind {
									ok = false
									continue
								}
								sub = protowire.AppendTag(nil, 2, protowire.BytesType)
							case 2: // a varint / fixed subfield cut by the entry's end
								sub = protowire.AppendTag(nil, 1, scalarWireType(fd.MapKey().Kind()))
								if fd.MapKey().Kind() == protoreflect.StringKind {
									sub = protowire.AppendTag(nil, 2, scalarWireType(fd.MapValue().Kind()))
								}
							}
							recs = append(recs, sub)
						}
						if !ok || n > 40 && variant == 2 {
							continue
						}
						// assemble back to front so that every window length is known
						var tail []byte
						for i := n - 1; i >= 0; i-- {
							sub := recs[i]
							var rec []byte
							if variant == 2 {
								rec = protowire.AppendTag(nil, fd.Number(), protowire.BytesType)
								rec = protowire.AppendVarint(rec, uint64(len(sub)))
								rec = append(rec, sub...)
								rec = append(rec, 0x80, 0x80, 0x01, 0x00, 0x00, 0x00, 0x00, 0x00, 0x00)[:len(rec)+2+i%7]
							} else {
								lenb := protowire.AppendVarint(nil, uint64(len(tail)))
								rec = protowire.AppendTag(nil, fd.Number(), protowire.BytesType)
								rec = protowire.AppendVarint(rec, uint64(len(sub)+len(lenb)))
								rec = append(rec, sub...)
								rec = append(rec, lenb...)
							}
							tail = append(rec, tail...)
						}
						if len(tail) < 1<<16 {
							c.malformed(mi, tail, "mapoverrun")
						}
					}
				}
			}
			// many occurrences of one field: allocation in proportion to the input
			if !cfg.thorough() {
				c.manyOccurrences(mi, 2000, 2, 0)
			} else if strings.HasSuffix(si.id, "test3") || strings.HasSuffix(si.id, "testpb") {
				c.manyOccurrences(mi, 2000, 0, 20000)
			} else {
				c.manyOccurrences(mi, 2000, 0, 0)
			}
			// random bytes
			nr := 40
			if cfg.thorough() {
				nr = 1000
			}
			for k := 0; k < nr; k++ {
				b := make([]byte, cc.r.intn(1+cc.r.intn(40)))
				for j := range b {
					if cc.r.intn(3) == 0 {
						b[j] = []byte{0x00, 0x01, 0x08, 0x0a, 0x12, 0x80, 0xff, 0x7f, 0x0b, 0x0c}[cc.r.intn(10)]
					} else {
						b[j] = byte(cc.r.u64())
					}
				}
				c.malformed(mi, b, "random")
			}
			// deep nesting through a self-referential singular/repeated/oneof message field
			for _, fi := range mi.fields {
				fd := fi.fd
				if fd.Kind() != protoreflect.MessageKind || fd.IsMap() || fd.Message().FullName() != mi.md.FullName() {
					continue
				}
				for _, depth := range []int{100, 9999, 10000, 10001, 20000} {
					c2 := *c
					c2.modelOK = false // the model takes too long to render 10^4 levels; outcome is checked against the reference
					c2.malformed(mi, nest(fd.Number(), depth, nil), "deep")
				}
				// model correspondence for the depth rule on a smaller scale is exercised by nested values
				break
			}
		}
	}
	for k, v := range ops {
		o.hist["op_"+k] = v
	}
}

// diffCtx shows the first position at which two renderings differ
func diffCtx(a, b string) string {
	i := 0
	for i < len(a) && i < len(b) && a[i] == b[i] {
		i++
	}
	lo := i - 50
	if lo < 0 {
		lo = 0
	}
	cut := func(s string) string {
		hi := i + 50
		if hi > len(s) {
			hi = len(s)
		}
		if lo > len(s) {
			return ""
		}
		return s[lo:hi]
	}
	return fmt.Sprintf("[impl ...%s... | ref ...%s...]", cut(a), cut(b))
}

func minInt(a, b int) int {
	if a < b {
		return a
	}
	return b
}
