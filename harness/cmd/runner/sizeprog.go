package main

// Engine "sizeprog" — translator tie for the generated Size closures (coq/Model/SizeProg.v).
//
// On every run, for every message type of every loaded schema set, the Go SOURCE of the
//     size := func(input protoiface.SizeInput) protoiface.SizeOutput { … }
// closure in  func (x *fastReflection_<Msg>) ProtoMethods()  (checked-in *.pulsar.go under VERIF_REPO, freshly generated ones
// under harness/gen/<set>/) is parsed with go/parser and turned, statement by statement and purely syntactically, into a program
// of the language of Model/SizeProg.v. The driver compares it with canon_size of the schema (SIZEPROG lines), and runs it with the
// Coq interpreter on sample values against proto.Size of the linked code (SIZERUN lines).
//
// Case lines (evaluated by driver/sizeprog_eval.ml, which also documents the text form of programs):
//	SIZEPROG  <set> <msg idx> <k>    = k-th top-level statement of the translated program   (model: the k-th statement of canon_size)
//	SIZEPROG  <set> <msg idx> len    = number of top-level statements | untranslatable:<file>:<line>:<col>:<why>
//	@SIZEDEF  <set> <msg idx> <prog> = ok          context line: the whole translated program, remembered by every driver shard
//	SIZEPROG  <set> <msg idx> eqb    = same        (model: prog_eqb <translated> (canon_size sch idx))
//	SIZERUN   <set> <msg idx> <VAL>  = proto.Size  (model: run_size sch idx <translated> VAL)
//
// The translator knows a fixed list of statement and expression shapes; anything else makes the message "untranslatable" (reported
// as the observed value of its SIZEPROG line, hence a mismatch). What is matched literally, token by token: the prologue (x :=
// input.Message.Interface().(*T); if x == nil {return Size 0}; options; var n, l), the final return of Size: n, the `if x == nil
// { break }` opening every case clause, and the Deterministic/else iteration boilerplate after a SiZeMaP closure. Field and
// wrapper names are mapped to field indexes through the Go struct type (package reflect: struct tags, oneof wrappers), exactly as
// values.go builds and reads values.

import (
	"fmt"
	"go/ast"
	"go/parser"
	"go/scanner"
	"go/token"
	"os"
	"path/filepath"
	"sort"
	"strconv"
	"strings"

	"google.golang.org/protobuf/proto"
	"google.golang.org/protobuf/reflect/protoreflect"
)

func init() { engines["sizeprog"] = engineSizeProg }

const (
	spRuntimePath    = "github.com/cosmos/cosmos-proto/runtime"
	spProtoifacePath = "google.golang.org/protobuf/runtime/protoiface"
)

type spFile struct {
	path    string
	src     []byte
	file    *ast.File
	imports map[string]string // import path -> local name
}
type spMethod struct {
	f    *spFile
	decl *ast.FuncDecl
}
type spPkg struct {
	fset    *token.FileSet
	methods map[string][]*spMethod // Go message type name -> its fastReflection_<T>.ProtoMethods declarations
	err     error
}

// spDir: the directory holding the source of a linked Go package: /repo's own packages under VERIF_REPO (default /repo), the
// freshly generated sets under <root>/harness/gen.
func spDir(pkgPath string) string {
	const mod = "github.com/cosmos/cosmos-proto/"
	const gen = mod + "verifh/gen/"
	switch {
	case strings.HasPrefix(pkgPath, gen):
		exe, err := os.Executable()
		if err != nil {
			panic(err)
		}
		exe, _ = filepath.EvalSymlinks(exe)
		root := filepath.Dir(filepath.Dir(filepath.Dir(exe))) // <root>/_build/bin/runner
		return filepath.Join(root, "harness", "gen", filepath.FromSlash(strings.TrimPrefix(pkgPath, gen)))
	case strings.HasPrefix(pkgPath, mod):
		repo := os.Getenv("VERIF_REPO")
		if repo == "" {
			repo = "/repo"
		}
		return filepath.Join(repo, filepath.FromSlash(strings.TrimPrefix(pkgPath, mod)))
	}
	return ""
}

var spPkgs = map[string]*spPkg{}

func spPkgOf(mi *msgInfo) *spPkg {
	pp := mi.goType.PkgPath()
	if p, ok := spPkgs[pp]; ok {
		return p
	}
	var p *spPkg
	if dir := spDir(pp); dir != "" {
		p = spLoad(dir)
	} else {
		p = &spPkg{err: fmt.Errorf("no source directory known for package %s", pp)}
	}
	spPkgs[pp] = p
	return p
}

func spLoad(dir string) *spPkg {
	p := &spPkg{fset: token.NewFileSet(), methods: map[string][]*spMethod{}}
	paths, _ := filepath.Glob(filepath.Join(dir, "*.pulsar.go"))
	sort.Strings(paths)
	if len(paths) == 0 {
		p.err = fmt.Errorf("no *.pulsar.go in %s", dir)
		return p
	}
	for _, path := range paths {
		src, err := os.ReadFile(path)
		if err != nil {
			p.err = err
			return p
		}
		af, err := parser.ParseFile(p.fset, path, src, 0) // identifiers are resolved to their declarations (ast.Object)
		if err != nil {
			p.err = err
			return p
		}
		f := &spFile{path: path, src: src, file: af, imports: map[string]string{}}
		for _, im := range af.Imports {
			ip, _ := strconv.Unquote(im.Path.Value)
			name := filepath.Base(ip)
			if im.Name != nil {
				name = im.Name.Name
			}
			f.imports[ip] = name
		}
		for _, d := range af.Decls {
			fd, ok := d.(*ast.FuncDecl)
			if !ok || fd.Name.Name != "ProtoMethods" || fd.Recv == nil || len(fd.Recv.List) != 1 {
				continue
			}
			st, ok := fd.Recv.List[0].Type.(*ast.StarExpr)
			if !ok {
				continue
			}
			id, ok := st.X.(*ast.Ident)
			if !ok || !strings.HasPrefix(id.Name, "fastReflection_") {
				continue
			}
			t := strings.TrimPrefix(id.Name, "fastReflection_")
			p.methods[t] = append(p.methods[t], &spMethod{f: f, decl: fd})
		}
	}
	return p
}

// ---- token-level comparison of a piece of source with an expected text -------------------------------------------------
// Tokens as go/scanner delivers them; automatically inserted and explicit semicolons alike; a semicolon or comma directly before a
// closing brace/parenthesis is dropped (layout of composite literals and one-line blocks).
func spToks(src []byte) []string {
	fs := token.NewFileSet()
	f := fs.AddFile("", fs.Base(), len(src))
	var s scanner.Scanner
	s.Init(f, src, nil, 0)
	var out []string
	for {
		_, tok, lit := s.Scan()
		if tok == token.EOF {
			break
		}
		t := tok.String()
		switch {
		case tok == token.SEMICOLON:
			t = ";"
		case tok.IsLiteral():
			t = lit
		}
		if (t == "}" || t == ")") && len(out) > 0 && (out[len(out)-1] == ";" || out[len(out)-1] == ",") {
			out = out[:len(out)-1]
		}
		out = append(out, t)
	}
	for len(out) > 0 && out[len(out)-1] == ";" {
		out = out[:len(out)-1]
	}
	return out
}
func spSame(a []byte, b string) bool {
	x, y := spToks(a), spToks([]byte(b))
	if len(x) != len(y) {
		return false
	}
	for i := range x {
		if x[i] != y[i] {
			return false
		}
	}
	return true
}

// ---- the translator ---------------------------------------------------------------------------------------------------
type spErr struct {
	pos token.Pos
	why string
}
type spTr struct {
	pkg      *spPkg
	f        *spFile
	plain    map[string]int // Go struct field name -> field index (fields outside oneofs)
	oneofs   map[string]int // Go struct field name of a oneof's interface field -> oneof index
	wrappers map[string]int // oneof wrapper type name -> field index
	payload  map[int]string // member field index -> name of the wrapper's single field
	caseOf   int            // >= 0: inside the case clause of that member (x is its wrapper)
	bound    map[string]bool
}

var spLvars = map[string]bool{"e": true, "s": true, "b": true, "k": true, "v": true}
var spIvars = map[string]string{"n": "n", "l": "l", "mapEntrySize": "m"}

func (t *spTr) fail(n ast.Node, why string, a ...interface{}) {
	panic(spErr{n.Pos(), fmt.Sprintf(why, a...)})
}
func (t *spTr) text(n ast.Node) []byte {
	return t.f.src[t.pkg.fset.Position(n.Pos()).Offset:t.pkg.fset.Position(n.End()).Offset]
}
func (t *spTr) textRange(a, b ast.Node) []byte {
	return t.f.src[t.pkg.fset.Position(a.Pos()).Offset:t.pkg.fset.Position(b.End()).Offset]
}
func spIdent(e ast.Expr, name string) bool {
	id, ok := e.(*ast.Ident)
	return ok && id.Name == name
}

// pkgSel: e is <local name of import path>.<sel>, the name not being a local object
func (t *spTr) pkgSel(e ast.Expr, path, sel string) bool {
	se, ok := e.(*ast.SelectorExpr)
	if !ok || se.Sel.Name != sel {
		return false
	}
	id, ok := se.X.(*ast.Ident)
	return ok && id.Obj == nil && t.f.imports[path] != "" && id.Name == t.f.imports[path]
}

// isUnknown: x.unknownFields (of the message, not of a wrapper)
func (t *spTr) isUnknown(e ast.Expr) bool {
	se, ok := e.(*ast.SelectorExpr)
	return ok && spIdent(se.X, "x") && se.Sel.Name == "unknownFields" && t.caseOf < 0
}

// ref: x.<Field> or a bound loop/closure variable
func (t *spTr) isRef(e ast.Expr) bool {
	switch v := e.(type) {
	case *ast.Ident:
		return spLvars[v.Name]
	case *ast.SelectorExpr:
		return spIdent(v.X, "x")
	}
	return false
}
func (t *spTr) ref(e ast.Expr) string {
	switch v := e.(type) {
	case *ast.Ident:
		if !spLvars[v.Name] {
			t.fail(e, "identifier %s is not a loop/closure variable", v.Name)
		}
		if !t.bound[v.Name] {
			t.fail(e, "variable %s is not bound here", v.Name)
		}
		return v.Name
	case *ast.SelectorExpr:
		if !spIdent(v.X, "x") {
			t.fail(e, "selector on something other than x")
		}
		if t.caseOf >= 0 {
			if t.payload[t.caseOf] != v.Sel.Name {
				t.fail(e, "x.%s inside the case clause of field %d (its wrapper has the field %s)", v.Sel.Name, t.caseOf, t.payload[t.caseOf])
			}
			return "f" + strconv.Itoa(t.caseOf)
		}
		i, ok := t.plain[v.Sel.Name]
		if !ok {
			t.fail(e, "x.%s is not a plain field of the message struct", v.Sel.Name)
		}
		return "f" + strconv.Itoa(i)
	}
	t.fail(e, "reference of shape %T", e)
	return ""
}

func (t *spTr) call1(e ast.Expr) (*ast.CallExpr, ast.Expr) {
	c, ok := e.(*ast.CallExpr)
	if !ok || len(c.Args) != 1 || c.Ellipsis.IsValid() {
		return nil, nil
	}
	return c, c.Args[0]
}

func (t *spTr) expr(e ast.Expr) string {
	switch v := e.(type) {
	case *ast.BasicLit:
		if v.Kind != token.INT {
			t.fail(e, "literal %s", v.Value)
		}
		u, err := strconv.ParseUint(v.Value, 0, 62)
		if err != nil {
			t.fail(e, "integer literal %s", v.Value)
		}
		return strconv.FormatUint(u, 10)
	case *ast.Ident:
		if s, ok := spIvars[v.Name]; ok {
			return s
		}
		t.fail(e, "identifier %s in an integer expression", v.Name)
	case *ast.BinaryExpr:
		switch v.Op {
		case token.ADD:
			return "(+ " + t.expr(v.X) + " " + t.expr(v.Y) + ")"
		case token.MUL:
			return "(* " + t.expr(v.X) + " " + t.expr(v.Y) + ")"
		}
		t.fail(e, "operator %s", v.Op)
	case *ast.CallExpr:
		c, arg := t.call1(e)
		if c == nil {
			t.fail(e, "call with %d arguments", len(v.Args))
		}
		switch {
		case spIdent(c.Fun, "len") && c.Fun.(*ast.Ident).Obj == nil:
			if t.isUnknown(arg) {
				return "lenunk"
			}
			return "(len " + t.ref(arg) + ")"
		case t.pkgSel(c.Fun, spRuntimePath, "Sov"), t.pkgSel(c.Fun, spRuntimePath, "Soz"):
			op := "(sov "
			if c.Fun.(*ast.SelectorExpr).Sel.Name == "Soz" {
				op = "(soz "
			}
			cc, inner := t.call1(arg)
			if cc == nil || !spIdent(cc.Fun, "uint64") || cc.Fun.(*ast.Ident).Obj != nil {
				t.fail(arg, "argument of Sov/Soz is not uint64(…)")
			}
			if t.isRef(inner) {
				return op + "(u64 " + t.ref(inner) + "))" // uint64(<scalar>)
			}
			return op + t.expr(inner) + ")" // uint64(<int expression>): identity on non-negative ints
		default:
			if se, ok := c.Fun.(*ast.SelectorExpr); ok && se.Sel.Name == "Size" {
				if id, ok := se.X.(*ast.Ident); ok && id.Name == "options" && id.Obj != nil {
					return "(size " + t.ref(arg) + ")"
				}
			}
		}
		t.fail(e, "call of %s", t.text(c.Fun))
	}
	t.fail(e, "expression of shape %T", e)
	return ""
}

func spZero(e ast.Expr) bool {
	l, ok := e.(*ast.BasicLit)
	return ok && l.Kind == token.INT && l.Value == "0"
}

func (t *spTr) cond(e ast.Expr) string {
	switch v := e.(type) {
	case *ast.BinaryExpr:
		switch v.Op {
		case token.GTR:
			if !spZero(v.Y) {
				t.fail(e, "comparison with something other than 0")
			}
			if id, ok := v.X.(*ast.Ident); ok {
				s, ok := spIvars[id.Name]
				if !ok {
					t.fail(e, "%s > 0", id.Name)
				}
				return "(pos " + s + ")"
			}
			if c, arg := t.call1(v.X); c != nil && spIdent(c.Fun, "len") && c.Fun.(*ast.Ident).Obj == nil {
				return "(len> " + t.ref(arg) + ")"
			}
			t.fail(e, "left side of > 0")
		case token.NEQ:
			if id, ok := v.Y.(*ast.Ident); ok && id.Name == "nil" && id.Obj == nil {
				if t.isUnknown(v.X) {
					return "unk"
				}
				return "(notnil " + t.ref(v.X) + ")"
			}
			if spZero(v.Y) {
				return "(nz " + t.ref(v.X) + ")"
			}
			t.fail(e, "right side of !=")
		case token.LOR:
			// R != 0 || math.Signbit(R)   /   R != 0 || math.Signbit(float64(R))
			l, ok := v.X.(*ast.BinaryExpr)
			if !ok || l.Op != token.NEQ || !spZero(l.Y) {
				t.fail(e, "left side of ||")
			}
			c, arg := t.call1(v.Y)
			if c == nil || !t.pkgSel(c.Fun, "math", "Signbit") {
				t.fail(e, "right side of || is not math.Signbit(…)")
			}
			if cc, inner := t.call1(arg); cc != nil && spIdent(cc.Fun, "float64") && cc.Fun.(*ast.Ident).Obj == nil {
				arg = inner
			}
			r := t.ref(l.X)
			if t.ref(arg) != r || string(t.text(arg)) != string(t.text(l.X)) {
				t.fail(e, "the two sides of || look at different things")
			}
			return "(nzs " + r + ")"
		}
		t.fail(e, "condition with operator %s", v.Op)
	case *ast.SelectorExpr, *ast.Ident:
		return "(true " + t.ref(e) + ")"
	}
	t.fail(e, "condition of shape %T", e)
	return ""
}

func (t *spTr) withBound(names []string, f func()) {
	old := map[string]bool{}
	for _, n := range names {
		old[n] = t.bound[n]
		t.bound[n] = true
	}
	f()
	for _, n := range names {
		t.bound[n] = old[n]
	}
}

func (t *spTr) stmtList(list []ast.Stmt, closureTop bool) []string {
	var out []string
	for i := 0; i < len(list); i++ {
		if as, ok := list[i].(*ast.AssignStmt); ok && as.Tok == token.DEFINE && len(as.Lhs) == 1 && spIdent(as.Lhs[0], "SiZeMaP") {
			if i+1 >= len(list) {
				t.fail(as, "SiZeMaP closure without the iteration that calls it")
			}
			out = append(out, t.mapBlock(as, list[i+1]))
			i++
			continue
		}
		out = append(out, t.stmt(list[i], closureTop))
	}
	return out
}
func (t *spTr) stmts(list []ast.Stmt, closureTop bool) string {
	var sb strings.Builder
	for _, s := range t.stmtList(list, closureTop) {
		sb.WriteString(" " + s)
	}
	return sb.String()
}

func (t *spTr) stmt(s ast.Stmt, closureTop bool) string {
	switch v := s.(type) {
	case *ast.AssignStmt:
		if len(v.Lhs) != 1 || len(v.Rhs) != 1 {
			t.fail(s, "assignment with %d left and %d right sides", len(v.Lhs), len(v.Rhs))
		}
		id, ok := v.Lhs[0].(*ast.Ident)
		if !ok || spIvars[id.Name] == "" {
			t.fail(s, "assignment to %s", t.text(v.Lhs[0]))
		}
		switch v.Tok {
		case token.ASSIGN:
			return "(= " + spIvars[id.Name] + " " + t.expr(v.Rhs[0]) + ")"
		case token.ADD_ASSIGN:
			return "(+= " + spIvars[id.Name] + " " + t.expr(v.Rhs[0]) + ")"
		case token.DEFINE:
			if !closureTop {
				t.fail(s, "declaration %s := outside the top level of a SiZeMaP closure", id.Name)
			}
			return "(:= " + spIvars[id.Name] + " " + t.expr(v.Rhs[0]) + ")"
		}
		t.fail(s, "assignment operator %s", v.Tok)
	case *ast.IfStmt:
		if v.Init != nil || v.Else != nil {
			t.fail(s, "if with init statement or else branch")
		}
		return "(if " + t.cond(v.Cond) + t.stmts(v.Body.List, false) + ")"
	case *ast.RangeStmt:
		val, ok := v.Value.(*ast.Ident)
		if v.Tok != token.DEFINE || !spIdent(v.Key, "_") || !ok || !spLvars[val.Name] {
			t.fail(s, "range statement is not `for _, <e|s|b|k|v> := range …`")
		}
		r := t.ref(v.X)
		var body string
		t.withBound([]string{val.Name}, func() { body = t.stmts(v.Body.List, false) })
		return "(for " + val.Name + " " + r + body + ")"
	case *ast.TypeSwitchStmt:
		return t.typeSwitch(v)
	}
	t.fail(s, "statement of shape %T", s)
	return ""
}

// switch x := x.<Oneof>.(type) { case *<Wrapper>: if x == nil { break }; body … }
func (t *spTr) typeSwitch(v *ast.TypeSwitchStmt) string {
	if t.caseOf >= 0 {
		t.fail(v, "type switch inside a case clause")
	}
	as, ok := v.Assign.(*ast.AssignStmt)
	if v.Init != nil || !ok || as.Tok != token.DEFINE || len(as.Lhs) != 1 || len(as.Rhs) != 1 || !spIdent(as.Lhs[0], "x") {
		t.fail(v, "type switch does not bind x")
	}
	ta, ok := as.Rhs[0].(*ast.TypeAssertExpr)
	if !ok || ta.Type != nil {
		t.fail(v, "type switch guard is not x.<Oneof>.(type)")
	}
	se, ok := ta.X.(*ast.SelectorExpr)
	if !ok || !spIdent(se.X, "x") {
		t.fail(v, "type switch guard is not x.<Oneof>.(type)")
	}
	o, ok := t.oneofs[se.Sel.Name]
	if !ok {
		t.fail(v, "x.%s is not a oneof field of the message struct", se.Sel.Name)
	}
	var sb strings.Builder
	fmt.Fprintf(&sb, "(switch %d", o)
	for _, c := range v.Body.List {
		cc := c.(*ast.CaseClause)
		if len(cc.List) != 1 {
			t.fail(cc, "case clause with %d types (a default clause has 0)", len(cc.List))
		}
		st, ok := cc.List[0].(*ast.StarExpr)
		if !ok {
			t.fail(cc, "case type is not *<Wrapper>")
		}
		id, ok := st.X.(*ast.Ident)
		if !ok {
			t.fail(cc, "case type is not *<Wrapper>")
		}
		j, ok := t.wrappers[id.Name]
		if !ok {
			t.fail(cc, "%s is not a oneof wrapper of this message", id.Name)
		}
		if len(cc.Body) == 0 || !spSame(t.text(cc.Body[0]), "if x == nil { break }") {
			t.fail(cc, "case clause does not start with `if x == nil { break }`")
		}
		t.caseOf = j
		body := t.stmts(cc.Body[1:], false)
		t.caseOf = -1
		fmt.Fprintf(&sb, " (case %d%s)", j, body)
	}
	sb.WriteString(")")
	return sb.String()
}

// SiZeMaP := func(k K, v V) { body }  followed by the iteration boilerplate, matched as a whole: in both branches the closure is
// called exactly once per key of x.F, with (k, x.F[k]).
func (t *spTr) mapBlock(as *ast.AssignStmt, next ast.Stmt) string {
	if t.caseOf >= 0 {
		t.fail(as, "map block inside a case clause")
	}
	fl, ok := as.Rhs[0].(*ast.FuncLit)
	if !ok || len(as.Rhs) != 1 || fl.Type.Results != nil {
		t.fail(as, "SiZeMaP is not a closure without results")
	}
	var names []string
	var ktype ast.Expr
	for _, p := range fl.Type.Params.List {
		for _, n := range p.Names {
			if len(names) == 0 {
				ktype = p.Type
			}
			names = append(names, n.Name)
		}
	}
	if len(names) != 2 || names[0] != "k" || names[1] != "v" {
		t.fail(as, "SiZeMaP's parameters are not (k, v)")
	}
	ifs, ok := next.(*ast.IfStmt)
	if !ok {
		t.fail(next, "the statement after the SiZeMaP closure is not `if options.Deterministic`")
	}
	// the field: taken from the else branch, then the whole statement is compared with the expected text
	field := ""
	if eb, ok := ifs.Else.(*ast.BlockStmt); ok && len(eb.List) == 1 {
		if rs, ok := eb.List[0].(*ast.RangeStmt); ok {
			if se, ok := rs.X.(*ast.SelectorExpr); ok && spIdent(se.X, "x") {
				field = se.Sel.Name
			}
		}
	}
	i, ok := t.plain[field]
	if !ok {
		t.fail(next, "cannot find the map field the iteration ranges over")
	}
	srt := t.f.imports["sort"]
	K := string(t.text(ktype))
	matched := false
	for _, sorter := range []string{
		srt + ".Strings(sortme)",
		srt + ".Slice(sortme, func(i, j int) bool { return sortme[i] < sortme[j] })",
		srt + ".Slice(sortme, func(i, j int) bool { return !sortme[i] && sortme[j] })",
	} {
		want := "if options.Deterministic {\n" +
			"sortme := make([]" + K + ", 0, len(x." + field + "))\n" +
			"for k := range x." + field + " {\nsortme = append(sortme, k)\n}\n" +
			sorter + "\n" +
			"for _, k := range sortme {\nv := x." + field + "[k]\nSiZeMaP(k, v)\n}\n" +
			"} else {\n" +
			"for k, v := range x." + field + " {\nSiZeMaP(k, v)\n}\n}"
		if srt != "" && spSame(t.text(next), want) {
			matched = true
		}
	}
	if !matched {
		t.fail(next, "the iteration after the SiZeMaP closure is not the template's boilerplate")
	}
	var body string
	t.withBound([]string{"k", "v"}, func() { body = t.stmts(fl.Body.List, true) })
	return "(map " + strconv.Itoa(i) + body + ")"
}

// translate the size closure of one message type
func spTranslate(pkg *spPkg, mi *msgInfo) (prog []string, failure string) {
	if pkg.err != nil {
		return nil, "untranslatable:-:" + pkg.err.Error()
	}
	tname := mi.goType.Name()
	ms := pkg.methods[tname]
	if len(ms) != 1 {
		return nil, fmt.Sprintf("untranslatable:-:%d declarations of fastReflection_%s.ProtoMethods", len(ms), tname)
	}
	m := ms[0]
	t := &spTr{pkg: pkg, f: m.f, plain: map[string]int{}, oneofs: map[string]int{}, wrappers: map[string]int{}, payload: map[int]string{}, caseOf: -1, bound: map[string]bool{}}
	for i, fi := range mi.fields {
		if fi.oneofIdx >= 0 {
			t.oneofs[mi.goType.Field(fi.sf).Name] = fi.oneofIdx
			t.wrappers[fi.wrapper.Elem().Name()] = i
			t.payload[i] = fi.wrapper.Elem().Field(0).Name
		} else {
			t.plain[mi.goType.Field(fi.sf).Name] = i
		}
	}
	defer func() {
		if e := recover(); e != nil {
			se, ok := e.(spErr)
			if !ok {
				panic(e)
			}
			p := pkg.fset.Position(se.pos)
			prog, failure = nil, fmt.Sprintf("untranslatable:%s:%d:%d:%s", filepath.Base(p.Filename), p.Line, p.Column, se.why)
		}
	}()
	pi := m.f.imports[spProtoifacePath]
	rt := m.f.imports[spRuntimePath]
	body := m.decl.Body.List
	// the closure: the first statement of the method; `size` is used once more, as the Size member of the returned Methods
	if len(body) < 2 {
		t.fail(m.decl, "ProtoMethods has %d statements", len(body))
	}
	as, ok := body[0].(*ast.AssignStmt)
	if !ok || as.Tok != token.DEFINE || len(as.Lhs) != 1 || len(as.Rhs) != 1 || !spIdent(as.Lhs[0], "size") {
		t.fail(body[0], "the first statement of ProtoMethods is not size := func…")
	}
	fl, ok := as.Rhs[0].(*ast.FuncLit)
	if !ok || pi == "" || !spSame(t.text(fl.Type), "func(input "+pi+".SizeInput) "+pi+".SizeOutput") {
		t.fail(body[0], "size is not a func(input protoiface.SizeInput) protoiface.SizeOutput")
	}
	sizeObj := as.Lhs[0].(*ast.Ident).Obj
	ret, ok := body[len(body)-1].(*ast.ReturnStmt)
	if !ok || len(ret.Results) != 1 {
		t.fail(body[len(body)-1], "ProtoMethods does not end in a return")
	}
	var usedAsSize *ast.Ident
	if ue, ok := ret.Results[0].(*ast.UnaryExpr); ok && ue.Op == token.AND {
		if cl, ok := ue.X.(*ast.CompositeLit); ok && t.pkgSel(cl.Type, spProtoifacePath, "Methods") {
			for _, el := range cl.Elts {
				if kv, ok := el.(*ast.KeyValueExpr); ok && spIdent(kv.Key, "Size") {
					if id, ok := kv.Value.(*ast.Ident); ok && id.Obj == sizeObj && sizeObj != nil {
						usedAsSize = id
					}
				}
			}
		}
	}
	if usedAsSize == nil {
		t.fail(ret, "ProtoMethods does not return &protoiface.Methods{… Size: size …}")
	}
	uses := 0
	ast.Inspect(m.decl.Body, func(n ast.Node) bool {
		if id, ok := n.(*ast.Ident); ok && id.Obj == sizeObj {
			uses++
		}
		return true
	})
	if uses != 2 {
		t.fail(m.decl, "the variable size is mentioned %d times in ProtoMethods (declaration and Size: size expected)", uses)
	}
	// prologue, literally
	cl := fl.Body.List
	if len(cl) < 9 {
		t.fail(fl, "size closure has %d statements", len(cl))
	}
	prologue := "x := input.Message.Interface().(*" + tname + ")\n" +
		"if x == nil {\nreturn " + pi + ".SizeOutput{\nNoUnkeyedLiterals: input.NoUnkeyedLiterals,\nSize: 0,\n}\n}\n" +
		"options := " + rt + ".SizeInputToOptions(input)\n_ = options\nvar n int\nvar l int\n_ = l"
	if rt == "" || !spSame(t.textRange(cl[0], cl[6]), prologue) {
		t.fail(cl[0], "the prologue of the size closure is not the template's")
	}
	epilogue := "return " + pi + ".SizeOutput{\nNoUnkeyedLiterals: input.NoUnkeyedLiterals,\nSize: n,\n}"
	if !spSame(t.text(cl[len(cl)-1]), epilogue) {
		t.fail(cl[len(cl)-1], "the size closure does not end in return SizeOutput{…, Size: n}")
	}
	return t.stmtList(cl[7:len(cl)-1], false), ""
}

func engineSizeProg(cfg config, o *out) {
	schemas := loadSchemasProg()
	cc := newClassCov("sizeprog")
	defer cc.emit(o)
	for _, si := range schemas {
		o.raw("SCHEMA\t" + si.id + "\t=\t" + si.sexp())
		r := newRng(cfg.seed, "sizeprog/"+si.id)
		g := &vgen{r: r, si: si, nilElems: true}
		for _, mi := range si.roots() {
			args := []string{si.id, fmt.Sprint(mi.idx)}
			stmts, failure := spTranslate(spPkgOf(mi), mi)
			if failure != "" {
				o.kase("SIZEPROG", append(args, "len"), failure)
				o.count("untranslatable")
				continue
			}
			// one line per top-level statement (a difference is reported with the two statements side by side), one for their number,
			// and the whole program as a context line for the SIZERUN lines below
			for k, s := range stmts {
				o.kase("SIZEPROG", append(args, strconv.Itoa(k)), s)
			}
			o.kase("SIZEPROG", append(args, "len"), strconv.Itoa(len(stmts)))
			prog := "(prog"
			for _, s := range stmts {
				prog += " " + s
			}
			prog += ")"
			o.kase("@SIZEDEF", append(args, prog), "ok")
			o.kase("SIZEPROG", append(args, "eqb"), "same")
			o.count("translated")
			cc.message(si, mi)
			o.nontrivial("prog/" + prog)
			for _, form := range []string{"(=", "(:=", "(+=", "(if", "(for", "(map", "(switch", "(case"} {
				o.hist["stmt_"+form[1:]] += strings.Count(prog, form+" ")
			}
			// the interpreter on the translated program against the running code
			run := func(v *V, class string) {
				p := si.toGo(mi, v).Interface().(proto.Message)
				sz, pan := catchSize(proto.MarshalOptions{}, p)
				obs := strconv.Itoa(sz)
				if pan != nil {
					obs = "panic"
				}
				o.kase("SIZERUN", []string{si.id, fmt.Sprint(mi.idx), v.String()}, obs)
				o.count("run_" + class)
				o.nontrivial(si.id + "/" + fmt.Sprint(mi.idx) + "/" + class + "/" + shapeKey(v))
			}
			run(si.emptyV(mi), "empty")
			uv := si.emptyV(mi)
			uv.Unk = genUnknownFor(r, mi)
			run(uv, "unknown-only")
			for i, fi := range mi.fields {
				fd := fi.fd
				nb := 2
				if cfg.thorough() {
					nb = 4
					if !fd.IsMap() && !fd.IsList() && fd.Kind() != protoreflect.MessageKind {
						nb = g.boundaryCount(fd)
					}
				}
				for b := 0; b < nb; b++ {
					v := si.emptyV(mi)
					switch {
					case fi.oneofIdx >= 0:
						if fd.Kind() == protoreflect.MessageKind {
							v.L[i] = &V{K: 's', P: g.elem(fd, 2)}
						} else {
							v.L[i] = &V{K: 's', P: g.scalar(fd)}
						}
					case fd.IsMap() || fd.IsList() || fd.Kind() == protoreflect.MessageKind:
						v.L[i] = g.field(fi, 2)
					case cfg.thorough():
						v.L[i] = g.scalarAt(fd, b)
					default:
						v.L[i] = g.scalar(fd)
					}
					run(v, "onehot")
				}
			}
			n := 10
			if cfg.thorough() {
				n = 200
			}
			for k := 0; k < n; k++ {
				g.unkDeep = k%4 == 1
				v := g.msg(mi, 3, 2+r.intn(7))
				g.unkDeep = false
				if k%3 == 0 {
					v.Unk = append(v.Unk, genUnknownFor(r, mi)...)
				}
				run(v, "random")
			}
		}
	}
}
