package main

// Engine "genprog" (task T17): translator tie for the hand-written decision logic of the plugin,
//
//	/repo/cmd/protoc-gen-go-pulsar/main.go   reservedFieldNames, rewriteMessageField, main (the loop over plugin.Files), generateAllFiles
//	/repo/generator/features.go              defaultFeatures, findFeatures, RegisterFeature
//
// (properties C12, C13; models coq/Model/GenNames.v, GenOrder.v). On every run both files (under VERIF_REPO, default /repo) are parsed
// with go/parser and every top-level declaration is translated, purely syntactically, into the language of coq/Model/GenProg.v; anything
// that is not one of the literal forms of that language makes the declaration `untranslatable:<line>:<col>:<why>`.
// Case lines (evaluated by driver/genprog_eval.ml):
//
//	GENPROG     <file> imports                 = the imported packages, sorted            model: canon_<file>_imports
//	GENPROG     <file> decls                   = the top-level declarations in order      model: kinds and names of canon_<file>
//	GENPROG     <file> <decl>                  = the printed translation                  model: print (canonical declaration of that name)
//	@GENPROGDEF <file> <decl> <text>           = ok      context line: the driver parses and keeps the TRANSLATED declaration
//	GENPROG     <file> <decl> eqb              = same    model: gpdecl_eqb <translated> <canonical>
//	GENPROG     types                          = ok      the field / method table of the protogen objects, checked through package reflect
//
// and, written by the gen engine next to its GENFEAT / GENFIELD / GENONEOF lines (same case file, after the @GENPROGDEF lines):
//
//	GENPROGRUN  MAIN <params> <flag> <files>   = <what the real plugin answered>          model: the interpreter on the TRANSLATED program
//	GENPROGRUN  REWRITE <params> <files>       = <the struct members found in the emitted sources>
//
// Text form of a declaration (driver/genprog_eval.ml prints and parses the same; types always travel as quoted text):
//
//	(func F (params (x "T")...) (results "T"...) (body s...)) | (var x e) | (type T "text") | (method R M)
//	s ::= (:= (x...) e) | (= (x...) e) | (var x "T") | (type-struct T (f "T")...) | (set-index m k v) | (set-field e F v)
//	    | (if (init s...) e (then s...) (else s...)) | (range k v e (body s...)) | (break) | (continue) | (return e...) | (expr e)
//	    | (sort-slice x i j e) | (log "f" e...) | (P gf e...) | (skip gf) | (flag-var f e "n" "u") | (flag-string-var f x "n" "d" "u")
//	    | (run f plugin (body s...))
//	e ::= nil | x | (str "...") | (unit) | (+ e e) | (== e e) | (!= e e) | (< e e) | (not e) | (or e e) | (. e F) | (index e e)
//	    | (index-ok e e) | (make-map "T") | (map-lit "T" ("k" e)...) | (struct T e...) | (append e e) | (split e "sep") | (errorf "f" e...)
//	    | (call f e...) | (full-name e) | (is-map-entry e) | (is-synthetic e) | (extensions e) | (new-generator e e e)
//	    | (new-generated-file e e e) | (generate-file e e e e) | (conv "T" e) | (qual pkg N)
//
// What the translator checks itself (no go/types): every package qualifier is an import of the expected path and is not shadowed; the
// predeclared identifiers it relies on (nil, make, append, uint64, string, bool, error, int) are not redeclared; every operand has the
// KIND its form needs, inferred from declared types and from the forms that define locals (a small kind checker: str bool int unit err
// feat plugin file msg field oneof ext gen out flagset opaque nil, map:<k>, slice:<k>, struct:<T>, objset).

import (
	"fmt"
	"go/ast"
	"go/parser"
	"go/token"
	"go/types"
	"os"
	"path/filepath"
	"reflect"
	"sort"
	"strconv"
	"strings"

	"google.golang.org/protobuf/compiler/protogen"
	"google.golang.org/protobuf/reflect/protoreflect"
)

func init() { engines["genprog"] = engineGenProg }

const (
	gpMainRel = "cmd/protoc-gen-go-pulsar/main.go"
	gpFeatRel = "generator/features.go"
)

var gpFiles = []struct{ tag, rel string }{{"features", gpFeatRel}, {"main", gpMainRel}}

// the packages the forms of the language mention, by the name used in the source
var gpWantImport = map[string]string{
	"fmt":          "fmt",
	"flag":         "flag",
	"log":          "log",
	"sort":         "sort",
	"strings":      "strings",
	"generator":    "github.com/cosmos/cosmos-proto/generator",
	"protogen":     "google.golang.org/protobuf/compiler/protogen",
	"protoreflect": "google.golang.org/protobuf/reflect/protoreflect",
	"pluginpb":     "google.golang.org/protobuf/types/pluginpb",
}

// ---- s-expressions ---------------------------------------------------------------------------------------------------------
type gpN struct {
	atom   string
	quoted bool
	list   []*gpN
	isList bool
}

func gpA(s string) *gpN      { return &gpN{atom: s} }
func gpQ(s string) *gpN      { return &gpN{atom: s, quoted: true} }
func gpL(items ...*gpN) *gpN { return &gpN{list: items, isList: true} }
func gpH(h string, items ...*gpN) *gpN {
	return &gpN{list: append([]*gpN{gpA(h)}, items...), isList: true}
}

func (n *gpN) String() string {
	if !n.isList {
		if n.quoted {
			return anypQuote(n.atom)
		}
		return n.atom
	}
	parts := make([]string, len(n.list))
	for i, x := range n.list {
		parts[i] = x.String()
	}
	return "(" + strings.Join(parts, " ") + ")"
}

func (n *gpN) head() string {
	if n.isList && len(n.list) > 0 && !n.list[0].isList && !n.list[0].quoted {
		return n.list[0].atom
	}
	return ""
}

type gpFail struct{ msg string }

// ---- the translator ----------------------------------------------------------------------------------------------------------
type gpTr struct {
	fset     *token.FileSet
	file     *ast.File
	imports  map[string]string   // name -> path
	top      map[string]string   // top-level name -> "func" | "var" | "type" | "const"
	typeText map[string]string   // named types of the file -> text of the underlying type expression
	varKind  map[string]string   // package-level variables -> kind
	funcSig  map[string][]string // functions of the file -> result kinds
	funcPar  map[string][]string // functions of the file -> parameter kinds
	scopes   []map[string]string // locals -> kind
	structs  map[string][][2]string
	results  []string
	inLoop   int
}

func (t *gpTr) fail(pos token.Pos, why string) {
	p := t.fset.Position(pos)
	panic(gpFail{fmt.Sprintf("untranslatable:%d:%d:%s", p.Line, p.Column, why)})
}

func (t *gpTr) push() { t.scopes = append(t.scopes, map[string]string{}) }
func (t *gpTr) pop()  { t.scopes = t.scopes[:len(t.scopes)-1] }
func (t *gpTr) lookup(x string) (string, bool) {
	for i := len(t.scopes) - 1; i >= 0; i-- {
		if k, ok := t.scopes[i][x]; ok {
			return k, true
		}
	}
	return "", false
}
func (t *gpTr) declare(pos token.Pos, x, kind string) {
	if x == "_" {
		return
	}
	t.ident(pos, x)
	t.scopes[len(t.scopes)-1][x] = kind
}

// a name that must denote what it denotes in the universe / the import block: not declared by the file
func (t *gpTr) free(id *ast.Ident) bool {
	_, local := t.lookup(id.Name)
	_, top := t.top[id.Name]
	return !local && !top
}

func (t *gpTr) ident(pos token.Pos, s string) string {
	if s == "" || strings.ContainsAny(s, " \t()\"\\") {
		t.fail(pos, "identifier "+strconv.Quote(s))
	}
	return s
}

// pkg.Name with pkg an import of the expected path
func (t *gpTr) qualified(e ast.Expr) (pkg, name string, ok bool) {
	se, isSel := e.(*ast.SelectorExpr)
	if !isSel {
		return "", "", false
	}
	id, isId := se.X.(*ast.Ident)
	if !isId || !t.free(id) {
		return "", "", false
	}
	path, imported := t.imports[id.Name]
	if !imported {
		return "", "", false
	}
	if want, known := gpWantImport[id.Name]; !known || want != path {
		t.fail(e.Pos(), "package "+id.Name+" is "+strconv.Quote(path))
	}
	return id.Name, se.Sel.Name, true
}

func (t *gpTr) isPkgCall(c *ast.CallExpr, pkg, fn string) bool {
	p, n, ok := t.qualified(c.Fun)
	return ok && p == pkg && n == fn
}

func (t *gpTr) builtin(e ast.Expr, name string) bool {
	id, ok := e.(*ast.Ident)
	return ok && id.Name == name && t.free(id)
}

func gpTypeText(e ast.Expr) string { return strings.Join(strings.Fields(types.ExprString(e)), " ") }

// the kind of the values of a type, from its text (named types of the file are looked through)
func (t *gpTr) kindOfType(txt string) string { return t.kindOfTypeN(txt, 4) }

func (t *gpTr) kindOfTypeN(txt string, depth int) string {
	switch txt {
	case "string", "protoreflect.FullName":
		return "str"
	case "bool":
		return "bool"
	case "int":
		return "int"
	case "error":
		return "err"
	case "struct{}":
		return "unit"
	case "Feature":
		if u, ok := t.typeText[txt]; ok && strings.HasPrefix(u, "func(") {
			return "feat"
		}
		return "?"
	case "*protogen.Plugin":
		return "plugin"
	case "*protogen.File":
		return "file"
	case "*protogen.Message":
		return "msg"
	case "*protogen.Field":
		return "field"
	case "*protogen.Oneof":
		return "oneof"
	case "flag.FlagSet":
		return "flagset"
	}
	if strings.HasPrefix(txt, "[]") {
		return "slice:" + t.kindOfTypeN(txt[2:], depth)
	}
	for _, pre := range []string{"map[string]", "map[protoreflect.FullName]"} {
		if strings.HasPrefix(txt, pre) {
			return "map:" + t.kindOfTypeN(txt[len(pre):], depth)
		}
	}
	if strings.HasPrefix(txt, "map[") {
		return "objset" // a map with other keys: only made and handed on
	}
	if _, ok := t.structs[txt]; ok {
		return "struct:" + txt
	}
	if u, ok := t.typeText[txt]; ok && depth > 0 {
		return t.kindOfTypeN(u, depth-1)
	}
	return "?"
}

func gpElem(kind, pre string) (string, bool) {
	if strings.HasPrefix(kind, pre) {
		return kind[len(pre):], true
	}
	return "", false
}

var gpFieldKind = map[string]map[string]string{
	"plugin": {"Files": "slice:file"},
	"file":   {"Generate": "bool", "Messages": "slice:msg", "GeneratedFilenamePrefix": "str", "GoImportPath": "str", "GoPackageName": "str"},
	"msg":    {"Fields": "slice:field", "Oneofs": "slice:oneof", "Messages": "slice:msg"},
	"field":  {"GoName": "str"},
	"oneof":  {"GoName": "str"},
}

// expression -> (text, kinds of its values)
func (t *gpTr) expr(e ast.Expr) (*gpN, []string) {
	switch x := e.(type) {
	case *ast.ParenExpr:
		return t.expr(x.X)
	case *ast.Ident:
		if x.Name == "nil" && t.free(x) {
			return gpA("nil"), []string{"nil"}
		}
		if x.Name == "_" {
			t.fail(x.Pos(), "blank identifier as a value")
		}
		if k, ok := t.lookup(x.Name); ok {
			if strings.HasPrefix(k, "type:") {
				t.fail(x.Pos(), "type name as a value")
			}
			return gpA(t.ident(x.Pos(), x.Name)), []string{k}
		}
		if k, ok := t.varKind[x.Name]; ok {
			return gpA(t.ident(x.Pos(), x.Name)), []string{k}
		}
		t.fail(x.Pos(), "identifier "+x.Name)
	case *ast.BasicLit:
		if x.Kind != token.STRING {
			t.fail(x.Pos(), "literal "+x.Value)
		}
		s, err := strconv.Unquote(x.Value)
		if err != nil {
			t.fail(x.Pos(), "string literal")
		}
		return gpH("str", gpQ(s)), []string{"str"}
	case *ast.UnaryExpr:
		switch x.Op {
		case token.NOT:
			a := t.one(x.X, "bool")
			return gpH("not", a), []string{"bool"}
		case token.AND:
			// &generator.Extensions{Poolable: e}
			if cl, ok := x.X.(*ast.CompositeLit); ok {
				if p, n, ok := t.qualified(cl.Type); ok && p == "generator" && n == "Extensions" && len(cl.Elts) == 1 {
					if kv, ok := cl.Elts[0].(*ast.KeyValueExpr); ok {
						if k, ok := kv.Key.(*ast.Ident); ok && k.Name == "Poolable" {
							a := t.one(kv.Value, "objset")
							return gpH("extensions", a), []string{"ext"}
						}
					}
				}
			}
		}
		t.fail(x.Pos(), "unary "+x.Op.String())
	case *ast.BinaryExpr:
		switch x.Op {
		case token.ADD:
			return gpH("+", t.one(x.X, "str"), t.one(x.Y, "str")), []string{"str"}
		case token.LSS:
			return gpH("<", t.one(x.X, "str"), t.one(x.Y, "str")), []string{"bool"}
		case token.LOR:
			return gpH("or", t.one(x.X, "bool"), t.one(x.Y, "bool")), []string{"bool"}
		case token.EQL, token.NEQ:
			a, ka := t.expr(x.X)
			b, kb := t.expr(x.Y)
			if len(ka) != 1 || len(kb) != 1 {
				t.fail(x.Pos(), "multi-valued operand")
			}
			ok := (ka[0] == kb[0] && (ka[0] == "str" || ka[0] == "bool")) ||
				(kb[0] == "nil" && (ka[0] == "err" || strings.HasPrefix(ka[0], "map:"))) ||
				(ka[0] == "nil" && (kb[0] == "err" || strings.HasPrefix(kb[0], "map:")))
			if !ok {
				t.fail(x.Pos(), "comparison of "+ka[0]+" and "+kb[0])
			}
			if x.Op == token.EQL {
				return gpH("==", a, b), []string{"bool"}
			}
			return gpH("!=", a, b), []string{"bool"}
		}
		t.fail(x.Pos(), "operator "+x.Op.String())
	case *ast.SelectorExpr:
		if p, n, ok := t.qualified(x); ok {
			// a constant of an imported package: opaque
			return gpH("qual", gpA(t.ident(x.Pos(), p)), gpA(t.ident(x.Pos(), n))), []string{"opaque"}
		}
		a, ka := t.expr(x.X)
		if len(ka) != 1 {
			t.fail(x.Pos(), "multi-valued operand")
		}
		if st, ok := gpElem(ka[0], "struct:"); ok {
			for _, f := range t.structs[st] {
				if f[0] == x.Sel.Name {
					return gpH(".", a, gpA(t.ident(x.Pos(), x.Sel.Name))), []string{f[1]}
				}
			}
		}
		if fk, ok := gpFieldKind[ka[0]][x.Sel.Name]; ok {
			return gpH(".", a, gpA(x.Sel.Name)), []string{fk}
		}
		t.fail(x.Pos(), "field "+x.Sel.Name+" of "+ka[0])
	case *ast.IndexExpr:
		a, ka := t.expr(x.X)
		if len(ka) != 1 {
			t.fail(x.Pos(), "multi-valued operand")
		}
		if el, ok := gpElem(ka[0], "slice:"); ok {
			return gpH("index", a, t.one(x.Index, "int")), []string{el}
		}
		if el, ok := gpElem(ka[0], "map:"); ok {
			return gpH("index", a, t.one(x.Index, "str")), []string{el}
		}
		t.fail(x.Pos(), "index of "+ka[0])
	case *ast.CompositeLit:
		return t.composite(x)
	case *ast.CallExpr:
		return t.call(x)
	}
	t.fail(e.Pos(), fmt.Sprintf("expression %T", e))
	return nil, nil
}

// a single-valued operand of the given kind
func (t *gpTr) one(e ast.Expr, kind string) *gpN {
	a, k := t.expr(e)
	if len(k) != 1 {
		t.fail(e.Pos(), "multi-valued operand")
	}
	if k[0] != kind && !(k[0] == "nil" && (kind == "err" || strings.HasPrefix(kind, "map:") || strings.HasPrefix(kind, "slice:"))) {
		t.fail(e.Pos(), "operand of kind "+k[0]+", want "+kind)
	}
	return a
}

func (t *gpTr) composite(x *ast.CompositeLit) (*gpN, []string) {
	if x.Type == nil {
		t.fail(x.Pos(), "composite literal without a type")
	}
	txt := gpTypeText(x.Type)
	switch k := t.kindOfType(txt); {
	case txt == "struct{}" && len(x.Elts) == 0:
		return gpH("unit"), []string{"unit"}
	case strings.HasPrefix(k, "map:"):
		el := k[len("map:"):]
		items := []*gpN{gpA("map-lit"), gpQ(txt)}
		for _, elt := range x.Elts {
			kv, ok := elt.(*ast.KeyValueExpr)
			if !ok {
				t.fail(elt.Pos(), "map literal element")
			}
			kl, ok := kv.Key.(*ast.BasicLit)
			if !ok || kl.Kind != token.STRING {
				t.fail(kv.Key.Pos(), "map literal key")
			}
			ks, err := strconv.Unquote(kl.Value)
			if err != nil {
				t.fail(kv.Key.Pos(), "map literal key")
			}
			var v *gpN
			if cl, ok := kv.Value.(*ast.CompositeLit); ok && cl.Type == nil {
				if el != "unit" || len(cl.Elts) != 0 {
					t.fail(cl.Pos(), "elided composite literal")
				}
				v = gpH("unit")
			} else {
				v = t.one(kv.Value, el)
			}
			items = append(items, gpL(gpQ(ks), v))
		}
		return gpL(items...), []string{k}
	case strings.HasPrefix(k, "struct:"):
		st := k[len("struct:"):]
		id, ok := x.Type.(*ast.Ident)
		if !ok {
			t.fail(x.Pos(), "struct literal type")
		}
		if lk, ok := t.lookup(id.Name); !ok || lk != "type:"+st {
			t.fail(x.Pos(), "struct literal type "+id.Name)
		}
		fields := t.structs[st]
		if len(x.Elts) != len(fields) {
			t.fail(x.Pos(), "struct literal with missing fields")
		}
		items := []*gpN{gpA("struct"), gpA(t.ident(x.Pos(), st))}
		for i, elt := range x.Elts {
			if _, keyed := elt.(*ast.KeyValueExpr); keyed {
				t.fail(elt.Pos(), "keyed struct literal")
			}
			items = append(items, t.one(elt, fields[i][1]))
		}
		return gpL(items...), []string{k}
	}
	t.fail(x.Pos(), "composite literal of type "+txt)
	return nil, nil
}

// x.Desc.M()
func (t *gpTr) descCall(c *ast.CallExpr) (recv ast.Expr, method string, ok bool) {
	se, isSel := c.Fun.(*ast.SelectorExpr)
	if !isSel || len(c.Args) != 0 {
		return nil, "", false
	}
	d, isSel := se.X.(*ast.SelectorExpr)
	if !isSel || d.Sel.Name != "Desc" {
		return nil, "", false
	}
	if _, _, q := t.qualified(d); q {
		return nil, "", false
	}
	return d.X, se.Sel.Name, true
}

func (t *gpTr) args(c *ast.CallExpr, kinds ...string) []*gpN {
	if len(c.Args) != len(kinds) || c.Ellipsis.IsValid() {
		t.fail(c.Pos(), "number of arguments")
	}
	out := make([]*gpN, len(kinds))
	for i, a := range c.Args {
		out[i] = t.one(a, kinds[i])
	}
	return out
}

func (t *gpTr) strLit(e ast.Expr) string {
	bl, ok := e.(*ast.BasicLit)
	if !ok || bl.Kind != token.STRING {
		t.fail(e.Pos(), "string literal expected")
	}
	s, err := strconv.Unquote(bl.Value)
	if err != nil {
		t.fail(e.Pos(), "string literal")
	}
	return s
}

func (t *gpTr) call(c *ast.CallExpr) (*gpN, []string) {
	if c.Ellipsis.IsValid() {
		t.fail(c.Pos(), "variadic call")
	}
	// conversions and builtins
	if t.builtin(c.Fun, "uint64") && len(c.Args) == 1 {
		a, k := t.expr(c.Args[0])
		if len(k) != 1 || k[0] != "opaque" {
			t.fail(c.Pos(), "conversion operand")
		}
		return gpH("conv", gpQ("uint64"), a), []string{"opaque"}
	}
	if t.builtin(c.Fun, "make") {
		if len(c.Args) != 1 {
			t.fail(c.Pos(), "make with a size")
		}
		txt := gpTypeText(c.Args[0])
		k := t.kindOfType(txt)
		if !strings.HasPrefix(k, "map:") && k != "objset" {
			t.fail(c.Pos(), "make of "+txt)
		}
		return gpH("make-map", gpQ(txt)), []string{k}
	}
	if t.builtin(c.Fun, "append") {
		if len(c.Args) != 2 {
			t.fail(c.Pos(), "append of other than one element")
		}
		s, ks := t.expr(c.Args[0])
		if len(ks) != 1 {
			t.fail(c.Pos(), "multi-valued operand")
		}
		el, ok := gpElem(ks[0], "slice:")
		if !ok {
			t.fail(c.Pos(), "append to "+ks[0])
		}
		return gpH("append", s, t.one(c.Args[1], el)), []string{ks[0]}
	}
	switch {
	case t.isPkgCall(c, "strings", "Split"):
		if len(c.Args) != 2 {
			t.fail(c.Pos(), "number of arguments")
		}
		return gpH("split", t.one(c.Args[0], "str"), gpQ(t.strLit(c.Args[1]))), []string{"slice:str"}
	case t.isPkgCall(c, "fmt", "Errorf"):
		if len(c.Args) < 1 {
			t.fail(c.Pos(), "number of arguments")
		}
		items := []*gpN{gpA("errorf"), gpQ(t.strLit(c.Args[0]))}
		for _, a := range c.Args[1:] {
			items = append(items, t.one(a, "str"))
		}
		return gpL(items...), []string{"err"}
	case t.isPkgCall(c, "generator", "NewGenerator"):
		a := t.args(c, "slice:file", "slice:str", "ext")
		return gpH("new-generator", a...), []string{"gen", "err"}
	}
	if recv, m, ok := t.descCall(c); ok {
		a, k := t.expr(recv)
		if len(k) != 1 {
			t.fail(c.Pos(), "multi-valued operand")
		}
		switch {
		case m == "FullName" && (k[0] == "msg" || k[0] == "field" || k[0] == "oneof"):
			return gpH("full-name", a), []string{"str"}
		case m == "IsMapEntry" && k[0] == "msg":
			return gpH("is-map-entry", a), []string{"bool"}
		case m == "IsSynthetic" && k[0] == "oneof":
			return gpH("is-synthetic", a), []string{"bool"}
		}
		t.fail(c.Pos(), "descriptor method "+m+" of "+k[0])
	}
	if id, ok := c.Fun.(*ast.Ident); ok {
		if _, local := t.lookup(id.Name); !local {
			if pk, isFunc := t.funcPar[id.Name]; isFunc {
				items := []*gpN{gpA("call"), gpA(t.ident(id.Pos(), id.Name))}
				items = append(items, t.args(c, pk...)...)
				return gpL(items...), t.funcSig[id.Name]
			}
		}
		t.fail(c.Pos(), "call of "+id.Name)
	}
	if se, ok := c.Fun.(*ast.SelectorExpr); ok {
		if _, _, q := t.qualified(se); !q {
			r, k := t.expr(se.X)
			if len(k) != 1 {
				t.fail(c.Pos(), "multi-valued operand")
			}
			switch {
			case k[0] == "plugin" && se.Sel.Name == "NewGeneratedFile":
				a := t.args(c, "str", "str")
				return gpH("new-generated-file", r, a[0], a[1]), []string{"out"}
			case k[0] == "gen" && se.Sel.Name == "GenerateFile":
				a := t.args(c, "plugin", "out", "file")
				return gpH("generate-file", r, a[0], a[1], a[2]), []string{"bool"}
			}
			t.fail(c.Pos(), "method "+se.Sel.Name+" of "+k[0])
		}
	}
	t.fail(c.Pos(), "call of "+types.ExprString(c.Fun))
	return nil, nil
}

func (t *gpTr) block(l []ast.Stmt) []*gpN {
	t.push()
	defer t.pop()
	var out []*gpN
	for _, s := range l {
		out = append(out, t.stmt(s))
	}
	return out
}

func gpBody(h string, l []*gpN) *gpN { return gpL(append([]*gpN{gpA(h)}, l...)...) }

func (t *gpTr) names(l []ast.Expr) ([]string, bool) {
	var out []string
	for _, e := range l {
		id, ok := e.(*ast.Ident)
		if !ok {
			return nil, false
		}
		out = append(out, id.Name)
	}
	return out, true
}

func gpNames(xs []string) *gpN {
	items := make([]*gpN, len(xs))
	for i, x := range xs {
		items[i] = gpA(x)
	}
	return gpL(items...)
}

func (t *gpTr) stmt(s ast.Stmt) *gpN {
	switch x := s.(type) {
	case *ast.AssignStmt:
		if len(x.Rhs) != 1 {
			t.fail(x.Pos(), "parallel assignment")
		}
		if x.Tok == token.DEFINE {
			xs, ok := t.names(x.Lhs)
			if !ok {
				t.fail(x.Pos(), "left-hand side of :=")
			}
			var e *gpN
			var ks []string
			if ix, isIx := x.Rhs[0].(*ast.IndexExpr); isIx && len(xs) == 2 {
				m, km := t.expr(ix.X)
				if len(km) != 1 {
					t.fail(x.Pos(), "multi-valued operand")
				}
				el, isMap := gpElem(km[0], "map:")
				if !isMap {
					t.fail(x.Pos(), "comma-ok index of "+km[0])
				}
				e, ks = gpH("index-ok", m, t.one(ix.Index, "str")), []string{el, "bool"}
			} else {
				e, ks = t.expr(x.Rhs[0])
			}
			if len(ks) != len(xs) {
				t.fail(x.Pos(), "number of values")
			}
			fresh := false
			for i, n := range xs {
				if n == "_" {
					continue
				}
				if _, here := t.scopes[len(t.scopes)-1][n]; !here {
					fresh = true
				}
				if ks[i] == "nil" || ks[i] == "?" {
					t.fail(x.Pos(), "variable of unknown type")
				}
				t.declare(x.Pos(), n, ks[i])
			}
			if !fresh {
				t.fail(x.Pos(), "no new variable on the left of :=")
			}
			return gpH(":=", gpNames(xs), e)
		}
		if x.Tok != token.ASSIGN {
			t.fail(x.Pos(), "assignment operator "+x.Tok.String())
		}
		if len(x.Lhs) == 1 {
			switch l := x.Lhs[0].(type) {
			case *ast.IndexExpr:
				m, km := t.expr(l.X)
				if len(km) != 1 {
					t.fail(x.Pos(), "multi-valued operand")
				}
				el, isMap := gpElem(km[0], "map:")
				if !isMap {
					t.fail(x.Pos(), "index assignment to "+km[0])
				}
				return gpH("set-index", m, t.one(l.Index, "str"), t.one(x.Rhs[0], el))
			case *ast.SelectorExpr:
				if _, _, q := t.qualified(l); q {
					t.fail(x.Pos(), "assignment to a package-level name of another package")
				}
				r, k := t.expr(l.X)
				if len(k) != 1 || (k[0] != "field" && k[0] != "oneof") || l.Sel.Name != "GoName" {
					t.fail(x.Pos(), "field assignment")
				}
				return gpH("set-field", r, gpA("GoName"), t.one(x.Rhs[0], "str"))
			}
		}
		xs, ok := t.names(x.Lhs)
		if !ok {
			t.fail(x.Pos(), "left-hand side of =")
		}
		e, ks := t.expr(x.Rhs[0])
		if len(ks) != len(xs) {
			t.fail(x.Pos(), "number of values")
		}
		for i, n := range xs {
			if n == "_" {
				continue
			}
			k, ok := t.lookup(n)
			if !ok {
				k, ok = t.varKind[n]
			}
			if !ok || (k != ks[i] && !(ks[i] == "nil" && (k == "err" || strings.HasPrefix(k, "map:") || strings.HasPrefix(k, "slice:")))) {
				t.fail(x.Pos(), "assignment of "+ks[i]+" to "+n)
			}
			t.ident(x.Pos(), n)
		}
		return gpH("=", gpNames(xs), e)
	case *ast.DeclStmt:
		gd, ok := x.Decl.(*ast.GenDecl)
		if !ok || len(gd.Specs) != 1 {
			t.fail(x.Pos(), "declaration")
		}
		switch sp := gd.Specs[0].(type) {
		case *ast.ValueSpec:
			if gd.Tok != token.VAR || len(sp.Names) != 1 || len(sp.Values) != 0 || sp.Type == nil {
				t.fail(x.Pos(), "var declaration")
			}
			txt := gpTypeText(sp.Type)
			k := t.kindOfType(txt)
			if k != "str" && k != "bool" && k != "flagset" && !strings.HasPrefix(k, "slice:") {
				t.fail(x.Pos(), "zero value of "+txt)
			}
			t.declare(x.Pos(), sp.Names[0].Name, k)
			return gpH("var", gpA(sp.Names[0].Name), gpQ(txt))
		case *ast.TypeSpec:
			st, ok := sp.Type.(*ast.StructType)
			if !ok || sp.TypeParams != nil || sp.Assign.IsValid() {
				t.fail(x.Pos(), "type declaration")
			}
			items := []*gpN{gpA("type-struct"), gpA(t.ident(x.Pos(), sp.Name.Name))}
			var fields [][2]string
			for _, f := range st.Fields.List {
				if len(f.Names) == 0 || f.Tag != nil {
					t.fail(f.Pos(), "struct field")
				}
				txt := gpTypeText(f.Type)
				for _, n := range f.Names {
					fields = append(fields, [2]string{n.Name, t.kindOfType(txt)})
					items = append(items, gpL(gpA(t.ident(f.Pos(), n.Name)), gpQ(txt)))
				}
			}
			if _, dup := t.structs[sp.Name.Name]; dup {
				t.fail(x.Pos(), "struct type declared twice")
			}
			t.structs[sp.Name.Name] = fields
			t.declare(x.Pos(), sp.Name.Name, "type:"+sp.Name.Name)
			return gpL(items...)
		}
		t.fail(x.Pos(), "declaration")
	case *ast.IfStmt:
		t.push()
		defer t.pop()
		var init []*gpN
		if x.Init != nil {
			init = []*gpN{t.stmt(x.Init)}
		}
		c := t.one(x.Cond, "bool")
		then := t.block(x.Body.List)
		var els []*gpN
		switch e := x.Else.(type) {
		case nil:
		case *ast.BlockStmt:
			els = t.block(e.List)
		case *ast.IfStmt:
			t.push()
			els = []*gpN{t.stmt(e)}
			t.pop()
		default:
			t.fail(x.Pos(), "else")
		}
		return gpH("if", gpBody("init", init), c, gpBody("then", then), gpBody("else", els))
	case *ast.RangeStmt:
		if x.Tok != token.DEFINE {
			t.fail(x.Pos(), "range without :=")
		}
		kn, vn := "_", "_"
		if x.Key != nil {
			id, ok := x.Key.(*ast.Ident)
			if !ok {
				t.fail(x.Pos(), "range key")
			}
			kn = id.Name
		}
		if x.Value != nil {
			id, ok := x.Value.(*ast.Ident)
			if !ok {
				t.fail(x.Pos(), "range value")
			}
			vn = id.Name
		}
		e, ks := t.expr(x.X)
		if len(ks) != 1 {
			t.fail(x.Pos(), "multi-valued operand")
		}
		var kk, vk string
		if el, ok := gpElem(ks[0], "slice:"); ok {
			kk, vk = "int", el
		} else if el, ok := gpElem(ks[0], "map:"); ok {
			kk, vk = "str", el
		} else {
			t.fail(x.Pos(), "range over "+ks[0])
		}
		t.push()
		defer t.pop()
		t.declare(x.Pos(), kn, kk)
		t.declare(x.Pos(), vn, vk)
		t.inLoop++
		body := t.block(x.Body.List)
		t.inLoop--
		return gpH("range", gpA(kn), gpA(vn), e, gpBody("body", body))
	case *ast.BranchStmt:
		if x.Label != nil || t.inLoop == 0 {
			t.fail(x.Pos(), "branch")
		}
		switch x.Tok {
		case token.BREAK:
			return gpH("break")
		case token.CONTINUE:
			return gpH("continue")
		}
		t.fail(x.Pos(), "branch "+x.Tok.String())
	case *ast.ReturnStmt:
		items := []*gpN{gpA("return")}
		if len(x.Results) == 1 && len(t.results) > 1 {
			e, ks := t.expr(x.Results[0])
			if len(ks) != len(t.results) {
				t.fail(x.Pos(), "number of results")
			}
			return gpL(append(items, e)...)
		}
		if len(x.Results) != len(t.results) {
			t.fail(x.Pos(), "number of results")
		}
		for i, r := range x.Results {
			items = append(items, t.one(r, t.results[i]))
		}
		return gpL(items...)
	case *ast.ExprStmt:
		c, ok := x.X.(*ast.CallExpr)
		if !ok {
			t.fail(x.Pos(), "expression statement")
		}
		return t.callStmt(c)
	}
	t.fail(s.Pos(), fmt.Sprintf("statement %T", s))
	return nil
}

func (t *gpTr) callStmt(c *ast.CallExpr) *gpN {
	switch {
	case t.isPkgCall(c, "log", "Printf"):
		if len(c.Args) < 1 || c.Ellipsis.IsValid() {
			t.fail(c.Pos(), "log.Printf")
		}
		items := []*gpN{gpA("log"), gpQ(t.strLit(c.Args[0]))}
		for _, a := range c.Args[1:] {
			items = append(items, t.one(a, "str"))
		}
		return gpL(items...)
	case t.isPkgCall(c, "sort", "Slice"):
		// sort.Slice(x, func(i, j int) bool { return e })
		if len(c.Args) != 2 {
			t.fail(c.Pos(), "sort.Slice")
		}
		id, ok := c.Args[0].(*ast.Ident)
		if !ok {
			t.fail(c.Pos(), "sort.Slice of other than a variable")
		}
		k, local := t.lookup(id.Name)
		if !local || !strings.HasPrefix(k, "slice:") {
			t.fail(c.Pos(), "sort.Slice of "+k)
		}
		fl, ok := c.Args[1].(*ast.FuncLit)
		if !ok || fl.Type.TypeParams != nil || fl.Type.Results == nil || len(fl.Type.Results.List) != 1 ||
			gpTypeText(fl.Type.Results.List[0].Type) != "bool" || len(fl.Type.Results.List[0].Names) != 0 || len(fl.Body.List) != 1 {
			t.fail(c.Pos(), "sort.Slice comparator")
		}
		var ps []string
		for _, f := range fl.Type.Params.List {
			if gpTypeText(f.Type) != "int" {
				t.fail(f.Pos(), "sort.Slice comparator parameter")
			}
			for _, n := range f.Names {
				ps = append(ps, n.Name)
			}
		}
		ret, ok := fl.Body.List[0].(*ast.ReturnStmt)
		if len(ps) != 2 || ps[0] == ps[1] || ps[0] == "_" || ps[1] == "_" || !ok || len(ret.Results) != 1 || !t.builtin(fl.Type.Results.List[0].Type, "bool") {
			t.fail(c.Pos(), "sort.Slice comparator")
		}
		t.push()
		t.declare(c.Pos(), ps[0], "int")
		t.declare(c.Pos(), ps[1], "int")
		less := t.one(ret.Results[0], "bool")
		t.pop()
		return gpH("sort-slice", gpA(t.ident(c.Pos(), id.Name)), gpA(ps[0]), gpA(ps[1]), less)
	}
	if se, ok := c.Fun.(*ast.SelectorExpr); ok {
		if _, _, q := t.qualified(se); !q {
			// protogen.Options{ParamFunc: f.Set}.Run(func(plugin *protogen.Plugin) error { … })
			if cl, isLit := se.X.(*ast.CompositeLit); isLit && se.Sel.Name == "Run" {
				return t.runStmt(c, cl)
			}
			if id, isId := se.X.(*ast.Ident); isId {
				if k, local := t.lookup(id.Name); local {
					switch {
					case k == "out" && se.Sel.Name == "P":
						if c.Ellipsis.IsValid() {
							t.fail(c.Pos(), "variadic call")
						}
						items := []*gpN{gpA("P"), gpA(id.Name)}
						for _, a := range c.Args {
							items = append(items, t.one(a, "str"))
						}
						return gpL(items...)
					case k == "out" && se.Sel.Name == "Skip" && len(c.Args) == 0:
						return gpH("skip", gpA(id.Name))
					case k == "flagset" && se.Sel.Name == "Var" && len(c.Args) == 3:
						v, kv := t.expr(c.Args[0])
						if len(kv) != 1 || kv[0] != "objset" {
							t.fail(c.Pos(), "flag value")
						}
						return gpH("flag-var", gpA(id.Name), v, gpQ(t.strLit(c.Args[1])), gpQ(t.strLit(c.Args[2])))
					case k == "flagset" && se.Sel.Name == "StringVar" && len(c.Args) == 4:
						u, ok := c.Args[0].(*ast.UnaryExpr)
						if !ok || u.Op != token.AND {
							t.fail(c.Pos(), "flag variable")
						}
						vid, ok := u.X.(*ast.Ident)
						if !ok {
							t.fail(c.Pos(), "flag variable")
						}
						if vk, local := t.lookup(vid.Name); !local || vk != "str" {
							t.fail(c.Pos(), "flag variable")
						}
						return gpH("flag-string-var", gpA(id.Name), gpA(vid.Name), gpQ(t.strLit(c.Args[1])), gpQ(t.strLit(c.Args[2])), gpQ(t.strLit(c.Args[3])))
					}
				}
			}
		}
	}
	e, _ := t.expr(c)
	if e.head() != "call" {
		t.fail(c.Pos(), "call statement")
	}
	return gpH("expr", e)
}

func (t *gpTr) runStmt(c *ast.CallExpr, cl *ast.CompositeLit) *gpN {
	p, n, ok := t.qualified(cl.Type)
	if !ok || p != "protogen" || n != "Options" || len(cl.Elts) != 1 || len(c.Args) != 1 {
		t.fail(c.Pos(), "Run")
	}
	kv, ok := cl.Elts[0].(*ast.KeyValueExpr)
	if !ok {
		t.fail(c.Pos(), "Run options")
	}
	key, ok := kv.Key.(*ast.Ident)
	if !ok || key.Name != "ParamFunc" {
		t.fail(c.Pos(), "Run options")
	}
	fs, ok := kv.Value.(*ast.SelectorExpr)
	if !ok || fs.Sel.Name != "Set" {
		t.fail(c.Pos(), "ParamFunc")
	}
	fid, ok := fs.X.(*ast.Ident)
	if !ok {
		t.fail(c.Pos(), "ParamFunc")
	}
	if k, local := t.lookup(fid.Name); !local || k != "flagset" {
		t.fail(c.Pos(), "ParamFunc")
	}
	fl, ok := c.Args[0].(*ast.FuncLit)
	if !ok || fl.Type.TypeParams != nil || len(fl.Type.Params.List) != 1 || len(fl.Type.Params.List[0].Names) != 1 ||
		gpTypeText(fl.Type.Params.List[0].Type) != "*protogen.Plugin" || fl.Type.Results == nil || len(fl.Type.Results.List) != 1 ||
		len(fl.Type.Results.List[0].Names) != 0 || gpTypeText(fl.Type.Results.List[0].Type) != "error" {
		t.fail(c.Pos(), "Run function")
	}
	if _, _, q := t.qualified(fl.Type.Params.List[0].Type.(*ast.StarExpr).X); !q {
		t.fail(c.Pos(), "Run function parameter")
	}
	pn := fl.Type.Params.List[0].Names[0].Name
	saveRes, saveLoop := t.results, t.inLoop
	t.results, t.inLoop = []string{"err"}, 0
	t.push()
	t.declare(c.Pos(), pn, "plugin")
	body := t.block(fl.Body.List)
	t.pop()
	t.results, t.inLoop = saveRes, saveLoop
	if len(fl.Body.List) == 0 {
		t.fail(c.Pos(), "Run function without a return")
	}
	if _, ok := fl.Body.List[len(fl.Body.List)-1].(*ast.ReturnStmt); !ok {
		t.fail(c.Pos(), "Run function without a final return")
	}
	return gpH("run", gpA(fid.Name), gpA(t.ident(c.Pos(), pn)), gpBody("body", body))
}

type gpDecl struct {
	kind, name string
	node       ast.Node
}

func (t *gpTr) sig(fd *ast.FuncDecl) (pn, pt, rt []string) {
	for _, f := range fd.Type.Params.List {
		txt := gpTypeText(f.Type)
		if len(f.Names) == 0 {
			pn, pt = append(pn, "_"), append(pt, txt)
		}
		for _, n := range f.Names {
			pn, pt = append(pn, n.Name), append(pt, txt)
		}
	}
	if fd.Type.Results != nil {
		for _, f := range fd.Type.Results.List {
			txt := gpTypeText(f.Type)
			n := len(f.Names)
			if n == 0 {
				n = 1
			} else {
				txt = "named:" + txt
			}
			for i := 0; i < n; i++ {
				rt = append(rt, txt)
			}
		}
	}
	return
}

func (t *gpTr) guard(f func() *gpN) (sx string) {
	defer func() {
		if r := recover(); r != nil {
			if f, ok := r.(gpFail); ok {
				sx = f.msg
				return
			}
			panic(r)
		}
	}()
	return f().String()
}

func (t *gpTr) function(fd *ast.FuncDecl) string {
	return t.guard(func() *gpN {
		if fd.Type.TypeParams != nil {
			t.fail(fd.Pos(), "type parameters")
		}
		if fd.Body == nil {
			t.fail(fd.Pos(), "function without a body")
		}
		pn, pt, rt := t.sig(fd)
		t.scopes = []map[string]string{{}}
		t.structs = map[string][][2]string{}
		t.results, t.inLoop = nil, 0
		params := []*gpN{gpA("params")}
		for i := range pn {
			k := t.kindOfType(pt[i])
			if k == "?" {
				t.fail(fd.Pos(), "parameter type "+pt[i])
			}
			t.declare(fd.Pos(), pn[i], k)
			params = append(params, gpL(gpA(t.ident(fd.Pos(), pn[i])), gpQ(pt[i])))
		}
		results := []*gpN{gpA("results")}
		for _, r := range rt {
			if strings.HasPrefix(r, "named:") {
				t.fail(fd.Pos(), "named results")
			}
			k := t.kindOfType(r)
			if k == "?" {
				t.fail(fd.Pos(), "result type "+r)
			}
			t.results = append(t.results, k)
			results = append(results, gpQ(r))
		}
		var body []*gpN
		for _, s := range fd.Body.List {
			body = append(body, t.stmt(s))
		}
		if len(rt) > 0 {
			if len(fd.Body.List) == 0 {
				t.fail(fd.Pos(), "missing return")
			}
			if _, ok := fd.Body.List[len(fd.Body.List)-1].(*ast.ReturnStmt); !ok {
				t.fail(fd.Pos(), "function without a final return")
			}
		}
		return gpH("func", gpA(t.ident(fd.Pos(), fd.Name.Name)), gpL(params...), gpL(results...), gpBody("body", body))
	})
}

func (t *gpTr) variable(name string, sp *ast.ValueSpec, idx int) string {
	return t.guard(func() *gpN {
		if len(sp.Values) != len(sp.Names) {
			t.fail(sp.Pos(), "package-level variable without an initialiser of its own")
		}
		t.scopes = []map[string]string{{}}
		t.structs = map[string][][2]string{}
		e, ks := t.expr(sp.Values[idx])
		if len(ks) != 1 {
			t.fail(sp.Pos(), "multi-valued initialiser")
		}
		return gpH("var", gpA(t.ident(sp.Pos(), name)), e)
	})
}

// gpTranslate: the imports line, the declarations in source order and a translator primed with the file's top-level names
func gpTranslate(path string) (imports string, decls []gpDecl, tr *gpTr, err error) {
	fset := token.NewFileSet()
	src, err := os.ReadFile(path)
	if err != nil {
		return "", nil, nil, err
	}
	file, err := parser.ParseFile(fset, path, src, 0)
	if err != nil {
		return "", nil, nil, err
	}
	tr = &gpTr{fset: fset, file: file, imports: map[string]string{}, top: map[string]string{}, typeText: map[string]string{},
		varKind: map[string]string{}, funcSig: map[string][]string{}, funcPar: map[string][]string{}, structs: map[string][][2]string{}}
	var ims []string
	for _, im := range file.Imports {
		ip, _ := strconv.Unquote(im.Path.Value)
		name := filepath.Base(ip)
		if im.Name != nil {
			name = im.Name.Name
			ims = append(ims, name+"="+ip)
		} else {
			ims = append(ims, ip)
		}
		if name == "_" {
			continue
		}
		if _, dup := tr.imports[name]; dup {
			tr.imports[name] = "" // ambiguous: never the expected path
		} else {
			tr.imports[name] = ip
		}
	}
	sort.Strings(ims)
	for _, d := range file.Decls {
		switch x := d.(type) {
		case *ast.FuncDecl:
			if x.Recv != nil {
				recv := "?"
				if len(x.Recv.List) == 1 {
					recv = strings.TrimPrefix(gpTypeText(x.Recv.List[0].Type), "*")
				}
				decls = append(decls, gpDecl{kind: "method", name: recv + "." + x.Name.Name, node: x})
				continue
			}
			tr.top[x.Name.Name] = "func"
			decls = append(decls, gpDecl{kind: "func", name: x.Name.Name, node: x})
		case *ast.GenDecl:
			if x.Tok == token.IMPORT {
				continue
			}
			for _, sp := range x.Specs {
				switch s := sp.(type) {
				case *ast.ValueSpec:
					for _, n := range s.Names {
						tr.top[n.Name] = strings.ToLower(x.Tok.String())
						decls = append(decls, gpDecl{kind: strings.ToLower(x.Tok.String()), name: n.Name, node: s})
					}
				case *ast.TypeSpec:
					tr.top[s.Name.Name] = "type"
					if s.TypeParams == nil && !s.Assign.IsValid() {
						tr.typeText[s.Name.Name] = gpTypeText(s.Type)
					}
					decls = append(decls, gpDecl{kind: "type", name: s.Name.Name, node: s})
				}
			}
		}
	}
	// kinds of the package-level variables (from their initialisers' forms) and of the functions (from their signatures)
	for _, d := range decls {
		switch d.kind {
		case "var":
			sp := d.node.(*ast.ValueSpec)
			for i, n := range sp.Names {
				if n.Name != d.name || len(sp.Values) != len(sp.Names) {
					continue
				}
				switch v := sp.Values[i].(type) {
				case *ast.CallExpr:
					if id, ok := v.Fun.(*ast.Ident); ok && id.Name == "make" && len(v.Args) == 1 {
						if k := tr.kindOfType(gpTypeText(v.Args[0])); strings.HasPrefix(k, "map:") {
							tr.varKind[d.name] = k
						}
					}
				case *ast.CompositeLit:
					if v.Type != nil {
						if k := tr.kindOfType(gpTypeText(v.Type)); strings.HasPrefix(k, "map:") {
							tr.varKind[d.name] = k
						}
					}
				}
			}
		case "func":
			fd := d.node.(*ast.FuncDecl)
			_, pt, rt := tr.sig(fd)
			pk, rk := []string{}, []string{}
			for _, p := range pt {
				pk = append(pk, tr.kindOfType(p))
			}
			for _, r := range rt {
				rk = append(rk, tr.kindOfType(strings.TrimPrefix(r, "named:")))
			}
			tr.funcPar[d.name], tr.funcSig[d.name] = pk, rk
		}
	}
	return strings.Join(ims, " "), decls, tr, nil
}

func (t *gpTr) decl(d gpDecl) string {
	switch d.kind {
	case "func":
		return t.function(d.node.(*ast.FuncDecl))
	case "var":
		sp := d.node.(*ast.ValueSpec)
		for i, n := range sp.Names {
			if n.Name == d.name {
				return t.variable(d.name, sp, i)
			}
		}
	case "type":
		s := d.node.(*ast.TypeSpec)
		if s.TypeParams != nil || s.Assign.IsValid() {
			return "untranslatable:type declaration"
		}
		return gpH("type", gpA(d.name), gpQ(gpTypeText(s.Type))).String()
	case "method":
		i := strings.LastIndexByte(d.name, '.')
		return gpH("method", gpA(d.name[:i]), gpA(d.name[i+1:])).String()
	}
	p := t.fset.Position(d.node.Pos())
	return fmt.Sprintf("untranslatable:%d:%d:%s declaration", p.Line, p.Column, d.kind)
}

// gpEmitTranslation writes the GENPROG lines (full = true) and the @GENPROGDEF context lines; it returns whether every declaration the
// interpreter needs was translated
func gpEmitTranslation(o *out, full bool) bool {
	ok := true
	for _, f := range gpFiles {
		path := filepath.Join(gfRepo(), filepath.FromSlash(f.rel))
		imports, decls, tr, err := gpTranslate(path)
		if err != nil {
			if full {
				o.kase("GENPROG", []string{f.tag, "decls"}, "unreadable:"+strings.NewReplacer("\t", " ", "\n", " ").Replace(err.Error()))
			}
			ok = false
			continue
		}
		if full {
			o.kase("GENPROG", []string{f.tag, "imports"}, imports)
			var names []string
			for _, d := range decls {
				names = append(names, d.kind+":"+d.name)
			}
			o.kase("GENPROG", []string{f.tag, "decls"}, strings.Join(names, " "))
		}
		for _, d := range decls {
			sx := tr.decl(d)
			if full {
				o.kase("GENPROG", []string{f.tag, d.kind + ":" + d.name}, sx)
			}
			if strings.HasPrefix(sx, "untranslatable:") {
				if full {
					o.count("untranslatable")
				}
				if d.kind == "func" || d.kind == "var" {
					ok = false
				}
				continue
			}
			o.kase("@GENPROGDEF", []string{f.tag, d.kind + ":" + d.name, sx}, "ok")
			if full {
				o.kase("GENPROG", []string{f.tag, d.kind + ":" + d.name, "eqb"}, "same")
				o.count("translated_" + d.kind)
				o.nontrivial("decl/" + sx)
				for _, form := range []string{"(:=", "(=", "(var", "(type-struct", "(set-index", "(set-field", "(if", "(range", "(break", "(continue", "(return",
					"(expr", "(sort-slice", "(log", "(P", "(skip", "(flag-var", "(flag-string-var", "(run", "(index-ok", "(make-map", "(map-lit", "(struct",
					"(append", "(split", "(errorf", "(call", "(full-name", "(is-map-entry", "(is-synthetic", "(new-generator", "(new-generated-file", "(generate-file"} {
					o.hist["form_"+form[1:]] += strings.Count(sx, form+" ") + strings.Count(sx, form+")")
				}
			}
		}
	}
	return ok
}

func engineGenProg(c config, o *out) {
	if len(c.extra) > 0 && c.extra[0] == "coq" {
		gpPrintCoq()
		return
	}
	gpEmitTranslation(o, true)
	gp2Emit(o, true)
	o.kase("GENPROG", []string{"types"}, gpCheckTypes())
}

// ---- the lines the gen engine writes next to GENFEAT / GENFIELD / GENONEOF ------------------------------------------------------------
// the request parameters protogen hands to ParamFunc (protogen.Options.New: "", module, paths, annotate_code and M… are its own)
func gpParams(param string) *gpN {
	items := []*gpN{}
	for _, p := range strings.Split(param, ",") {
		var value string
		if i := strings.Index(p, "="); i >= 0 {
			value, p = p[i+1:], p[:i]
		}
		switch p {
		case "", "module", "paths", "annotate_code":
			continue
		}
		if p[0] == 'M' {
			continue
		}
		items = append(items, gpL(gpQ(p), gpQ(value)))
	}
	return gpL(items...)
}

// the plugin's object tree as protogen builds it (GoNames BEFORE the plugin's rewrite); withMsgs = false leaves the messages out;
// members: struct member found in the emitted source per (message GoIdent, field number / oneof name), "" when not observed
func gpFilesSexp(pl *protogen.Plugin, withMsgs bool, observed map[string]bool) *gpN {
	var msg func(m *protogen.Message) *gpN
	msg = func(m *protogen.Message) *gpN {
		fields := []*gpN{gpA("F")}
		for _, f := range m.Fields {
			label := fmt.Sprintf("f%d", f.Desc.Number())
			if f.Oneof != nil && !f.Oneof.Desc.IsSynthetic() {
				label = "-" // a member of a real oneof lives in a wrapper struct: not observed here
			}
			fields = append(fields, gpL(gpQ(f.GoName), gpQ(string(f.Desc.FullName())), gpQ(label)))
		}
		oneofs := []*gpN{gpA("O")}
		for _, oo := range m.Oneofs {
			syn := "real"
			label := "o" + string(oo.Desc.Name())
			if oo.Desc.IsSynthetic() {
				syn, label = "syn", "-"
			}
			oneofs = append(oneofs, gpL(gpQ(oo.GoName), gpA(syn), gpQ(string(oo.Desc.FullName())), gpQ(label)))
		}
		nested := []*gpN{gpA("N")}
		for _, n := range m.Messages {
			nested = append(nested, msg(n))
		}
		me := "msg"
		if m.Desc.IsMapEntry() {
			me = "mapentry"
		}
		return gpH("M", gpQ(string(m.Desc.FullName())), gpA(me), gpQ(m.GoIdent.GoName), gpL(fields...), gpL(oneofs...), gpL(nested...))
	}
	items := []*gpN{}
	for _, f := range pl.Files {
		gen, p3, obs := "skip", "other", "unobserved"
		if f.Generate {
			gen = "generate"
		}
		if f.Desc.Syntax() == protoreflect.Proto3 {
			p3 = "proto3"
		}
		if observed[f.GeneratedFilenamePrefix+".pulsar.go"] {
			obs = "observed"
		}
		msgs := []*gpN{gpA("MS")}
		if withMsgs {
			for _, m := range f.Messages {
				msgs = append(msgs, msg(m))
			}
		}
		items = append(items, gpH("File", gpA(gen), gpA(p3), gpA(obs), gpQ(f.GeneratedFilenamePrefix), gpQ(string(f.GoImportPath)), gpQ(string(f.GoPackageName)), gpL(msgs...)))
	}
	return gpL(items...)
}

// ---- "coq": print the translation as Coq constants (used once, to write the canonical programs of Model/GenProg.v) ----------------------
func gpCoqStr(s string) string { return "\"" + strings.ReplaceAll(s, "\"", "\"\"") + "\"" }

func gpCoqList(items []string) string { return "[" + strings.Join(items, "; ") + "]" }

func gpCoqExpr(n *gpN) string {
	if !n.isList {
		if n.atom == "nil" {
			return "GpxNil"
		}
		return "(GpxVar " + gpCoqStr(n.atom) + ")"
	}
	a := n.list[1:]
	ex := func(i int) string { return gpCoqExpr(a[i]) }
	exs := func(l []*gpN) string {
		var out []string
		for _, x := range l {
			out = append(out, gpCoqExpr(x))
		}
		return gpCoqList(out)
	}
	switch n.head() {
	case "str":
		return "(GpxStr " + gpCoqStr(a[0].atom) + ")"
	case "unit":
		return "GpxUnit"
	case "+":
		return "(GpxConcat " + ex(0) + " " + ex(1) + ")"
	case "==":
		return "(GpxEq " + ex(0) + " " + ex(1) + ")"
	case "!=":
		return "(GpxNe " + ex(0) + " " + ex(1) + ")"
	case "<":
		return "(GpxLt " + ex(0) + " " + ex(1) + ")"
	case "not":
		return "(GpxNot " + ex(0) + ")"
	case "or":
		return "(GpxOr " + ex(0) + " " + ex(1) + ")"
	case ".":
		return "(GpxSel " + ex(0) + " " + gpCoqStr(a[1].atom) + ")"
	case "index":
		return "(GpxIndex " + ex(0) + " " + ex(1) + ")"
	case "index-ok":
		return "(GpxIndexOk " + ex(0) + " " + ex(1) + ")"
	case "make-map":
		return "(GpxMakeMap " + gpCoqStr(a[0].atom) + ")"
	case "map-lit":
		var kvs []string
		for _, kv := range a[1:] {
			kvs = append(kvs, "("+gpCoqStr(kv.list[0].atom)+", "+gpCoqExpr(kv.list[1])+")")
		}
		return "(GpxMapLit " + gpCoqStr(a[0].atom) + " " + gpCoqList(kvs) + ")"
	case "struct":
		return "(GpxStruct " + gpCoqStr(a[0].atom) + " " + exs(a[1:]) + ")"
	case "append":
		return "(GpxAppend " + ex(0) + " " + ex(1) + ")"
	case "split":
		return "(GpxSplit " + ex(0) + " " + gpCoqStr(a[1].atom) + ")"
	case "errorf":
		return "(GpxErrorf " + gpCoqStr(a[0].atom) + " " + exs(a[1:]) + ")"
	case "call":
		return "(GpxCall " + gpCoqStr(a[0].atom) + " " + exs(a[1:]) + ")"
	case "full-name":
		return "(GpxFullName " + ex(0) + ")"
	case "is-map-entry":
		return "(GpxIsMapEntry " + ex(0) + ")"
	case "is-synthetic":
		return "(GpxIsSynthetic " + ex(0) + ")"
	case "extensions":
		return "(GpxExtensions " + ex(0) + ")"
	case "new-generator":
		return "(GpxNewGenerator " + ex(0) + " " + ex(1) + " " + ex(2) + ")"
	case "new-generated-file":
		return "(GpxNewGeneratedFile " + ex(0) + " " + ex(1) + " " + ex(2) + ")"
	case "generate-file":
		return "(GpxGenerateFile " + ex(0) + " " + ex(1) + " " + ex(2) + " " + ex(3) + ")"
	case "conv":
		return "(GpxConv " + gpCoqStr(a[0].atom) + " " + ex(1) + ")"
	case "qual":
		return "(GpxQual " + gpCoqStr(a[0].atom) + " " + gpCoqStr(a[1].atom) + ")"
	}
	return "(* ? " + n.String() + " *)"
}

func gpCoqStmts(l []*gpN, ind string) string {
	var out []string
	for _, s := range l {
		out = append(out, gpCoqStmt(s, ind+"  "))
	}
	if len(out) == 0 {
		return "[]"
	}
	return "[ " + strings.Join(out, ";\n"+ind+"  ") + " ]"
}

func gpCoqStmt(n *gpN, ind string) string {
	a := n.list[1:]
	names := func(x *gpN) string {
		var out []string
		for _, y := range x.list {
			out = append(out, gpCoqStr(y.atom))
		}
		return gpCoqList(out)
	}
	exs := func(l []*gpN) string {
		var out []string
		for _, x := range l {
			out = append(out, gpCoqExpr(x))
		}
		return gpCoqList(out)
	}
	switch n.head() {
	case ":=":
		return "GpsDefine " + names(a[0]) + " " + gpCoqExpr(a[1])
	case "=":
		return "GpsAssign " + names(a[0]) + " " + gpCoqExpr(a[1])
	case "var":
		return "GpsVar " + gpCoqStr(a[0].atom) + " " + gpCoqStr(a[1].atom)
	case "type-struct":
		var fs []string
		for _, f := range a[1:] {
			fs = append(fs, "("+gpCoqStr(f.list[0].atom)+", "+gpCoqStr(f.list[1].atom)+")")
		}
		return "GpsTypeStruct " + gpCoqStr(a[0].atom) + " " + gpCoqList(fs)
	case "set-index":
		return "GpsSetIndex " + gpCoqExpr(a[0]) + " " + gpCoqExpr(a[1]) + " " + gpCoqExpr(a[2])
	case "set-field":
		return "GpsSetField " + gpCoqExpr(a[0]) + " " + gpCoqStr(a[1].atom) + " " + gpCoqExpr(a[2])
	case "if":
		return "GpsIf " + gpCoqStmts(a[0].list[1:], ind) + " " + gpCoqExpr(a[1]) + "\n" + ind + "  " + gpCoqStmts(a[2].list[1:], ind) + " " + gpCoqStmts(a[3].list[1:], ind)
	case "range":
		return "GpsRange " + gpCoqStr(a[0].atom) + " " + gpCoqStr(a[1].atom) + " " + gpCoqExpr(a[2]) + "\n" + ind + "  " + gpCoqStmts(a[3].list[1:], ind)
	case "break":
		return "GpsBreak"
	case "continue":
		return "GpsContinue"
	case "return":
		return "GpsReturn " + exs(a)
	case "expr":
		return "GpsExpr " + gpCoqExpr(a[0])
	case "sort-slice":
		return "GpsSortSlice " + gpCoqStr(a[0].atom) + " " + gpCoqStr(a[1].atom) + " " + gpCoqStr(a[2].atom) + " " + gpCoqExpr(a[3])
	case "log":
		return "GpsLog " + gpCoqStr(a[0].atom) + " " + exs(a[1:])
	case "P":
		return "GpsP " + gpCoqExpr(a[0]) + " " + exs(a[1:])
	case "skip":
		return "GpsSkip " + gpCoqExpr(a[0])
	case "flag-var":
		return "GpsFlagVar " + gpCoqStr(a[0].atom) + " " + gpCoqExpr(a[1]) + " " + gpCoqStr(a[2].atom) + " " + gpCoqStr(a[3].atom)
	case "flag-string-var":
		return "GpsFlagStringVar " + gpCoqStr(a[0].atom) + " " + gpCoqStr(a[1].atom) + " " + gpCoqStr(a[2].atom) + " " + gpCoqStr(a[3].atom) + " " + gpCoqStr(a[4].atom)
	case "run":
		return "GpsRun " + gpCoqStr(a[0].atom) + " " + gpCoqStr(a[1].atom) + "\n" + ind + "  " + gpCoqStmts(a[2].list[1:], ind)
	}
	return "(* ? " + n.String() + " *)"
}

// a minimal reader of the text form (only for the "coq" mode)
func gpParse(s string) *gpN {
	pos := 0
	var item func() *gpN
	item = func() *gpN {
		for pos < len(s) && s[pos] == ' ' {
			pos++
		}
		switch {
		case s[pos] == '(':
			pos++
			n := &gpN{isList: true}
			for {
				for pos < len(s) && s[pos] == ' ' {
					pos++
				}
				if s[pos] == ')' {
					pos++
					return n
				}
				n.list = append(n.list, item())
			}
		case s[pos] == '"':
			pos++
			var b []byte
			for s[pos] != '"' {
				if s[pos] == '\\' {
					pos++
					if s[pos] == 'x' {
						v, _ := strconv.ParseUint(s[pos+1:pos+3], 16, 8)
						b = append(b, byte(v))
						pos += 3
						continue
					}
				}
				b = append(b, s[pos])
				pos++
			}
			pos++
			return gpQ(string(b))
		default:
			st := pos
			for pos < len(s) && s[pos] != ' ' && s[pos] != ')' && s[pos] != '(' {
				pos++
			}
			return gpA(s[st:pos])
		}
	}
	return item()
}

func gpPrintCoq() {
	for _, f := range gpFiles {
		path := filepath.Join(gfRepo(), filepath.FromSlash(f.rel))
		imports, decls, tr, err := gpTranslate(path)
		if err != nil {
			fmt.Println("(* unreadable:", err, "*)")
			continue
		}
		fmt.Printf("(* %s *)\n(* imports: %s *)\n", f.rel, imports)
		for _, d := range decls {
			sx := tr.decl(d)
			if strings.HasPrefix(sx, "untranslatable:") {
				fmt.Printf("(* %s %s: %s *)\n", d.kind, d.name, sx)
				continue
			}
			n := gpParse(sx)
			a := n.list[1:]
			switch n.head() {
			case "func":
				var ps, rs []string
				for _, p := range a[1].list[1:] {
					ps = append(ps, "("+gpCoqStr(p.list[0].atom)+", "+gpCoqStr(p.list[1].atom)+")")
				}
				for _, r := range a[2].list[1:] {
					rs = append(rs, gpCoqStr(r.atom))
				}
				fmt.Printf("GpdFunc %s %s %s\n  %s;\n", gpCoqStr(a[0].atom), gpCoqList(ps), gpCoqList(rs), gpCoqStmts(a[3].list[1:], "  "))
			case "var":
				fmt.Printf("GpdVar %s %s;\n", gpCoqStr(a[0].atom), gpCoqExpr(a[1]))
			case "type":
				fmt.Printf("GpdType %s %s;\n", gpCoqStr(a[0].atom), gpCoqStr(a[1].atom))
			case "method":
				fmt.Printf("GpdMethod %s %s;\n", gpCoqStr(a[0].atom), gpCoqStr(a[1].atom))
			}
		}
	}
}

// ---- hooks of the gen engine -----------------------------------------------------------------------------------------------------------
// gpHook: written once per gen run: the @GENPROGDEF context lines; ok = every function / variable was translated (else no GENPROGRUN lines)
type gpHook struct {
	ok    bool
	ok2   bool
	views map[*genReq]*protogen.Plugin
}

func newGpHook(o *out) *gpHook {
	return &gpHook{ok: gpEmitTranslation(o, false), ok2: gp2Emit(o, false), views: map[*genReq]*protogen.Plugin{}}
}

func (h *gpHook) view(r *genReq) *protogen.Plugin {
	if pl, ok := h.views[r]; ok {
		return pl
	}
	pl, err := protogenView(r)
	if err != nil {
		pl = nil
	}
	h.views[r] = pl
	return pl
}

// next to a GENFEAT line: the whole plugin interpreted on the request (object tree without messages) against the real answer
func (h *gpHook) mainLine(o *out, r *genReq, param string, res *runRes) {
	if h == nil || !h.ok {
		o.count("genprog/run_skipped")
		return
	}
	pl := h.view(r)
	if pl == nil {
		return
	}
	var names []string
	if res.resp != nil {
		for _, f := range res.resp.File {
			names = append(names, f.GetName())
		}
	}
	obs := featObs(observedFeatures(res), r) + "|" + strings.Join(names, ",")
	o.kase("GENPROGRUN", []string{"MAIN", gpParams(param).String(), hasMsgFlag(r), gpFilesSexp(pl, false, nil).String()}, obs)
	o.count("genprog/main")
	if res.resp != nil {
		gp2RunLine(o, h.ok2, gpParams(param), gpFilesSexp(pl, false, nil), names, res.resp.Error != nil)
	}
}

// what identLines found of one emitted file: the struct members of its messages, in declaration order
type gpRewriteObs struct {
	parts    []string
	observed map[string]bool
	missing  bool
}

func (ob *gpRewriteObs) file(file *protogen.File, structField map[string]string) {
	if ob.observed == nil {
		ob.observed = map[string]bool{}
	}
	ob.observed[file.GeneratedFilenamePrefix+".pulsar.go"] = true
	var walk func(ms []*protogen.Message)
	walk = func(ms []*protogen.Message) {
		for _, m := range ms {
			if m.Desc.IsMapEntry() {
				continue
			}
			gn := m.GoIdent.GoName
			var sb strings.Builder
			sb.WriteString(gn + "{")
			for _, f := range m.Fields {
				if f.Oneof != nil && !f.Oneof.Desc.IsSynthetic() {
					continue
				}
				mem := structField[gn+"/"+fmt.Sprint(f.Desc.Number())]
				if mem == "" {
					ob.missing = true
				}
				fmt.Fprintf(&sb, "f%d=%s,", f.Desc.Number(), mem)
			}
			for _, oo := range m.Oneofs {
				if oo.Desc.IsSynthetic() {
					continue
				}
				mem := structField[gn+"/oneof/"+string(oo.Desc.Name())]
				if mem == "" {
					ob.missing = true
				}
				fmt.Fprintf(&sb, "o%s=%s,", oo.Desc.Name(), mem)
			}
			sb.WriteString("}")
			ob.parts = append(ob.parts, sb.String())
			walk(m.Messages)
		}
	}
	walk(file.Messages)
}

func (h *gpHook) rewriteLine(o *out, r *genReq, pl *protogen.Plugin, ob *gpRewriteObs) {
	if h == nil || !h.ok {
		o.count("genprog/run_skipped")
		return
	}
	if ob.missing || len(ob.observed) == 0 {
		o.count("genprog/rewrite_unobserved")
		return
	}
	o.kase("GENPROGRUN", []string{"REWRITE", gpParams(r.param).String(), gpFilesSexp(pl, true, ob.observed).String()}, strings.Join(ob.parts, ""))
	o.count("genprog/rewrite")
	o.hist["genprog/rewrite_messages"] += len(ob.parts)
}

// gpCheckTypes: the table gpFieldKind and the descriptor methods the forms rely on, compared with the real declarations of protogen /
// protoreflect through package reflect (the translator itself never sees types)
func gpCheckTypes() string {
	want := map[string]reflect.Type{"plugin": reflect.TypeOf(protogen.Plugin{}), "file": reflect.TypeOf(protogen.File{}), "msg": reflect.TypeOf(protogen.Message{}),
		"field": reflect.TypeOf(protogen.Field{}), "oneof": reflect.TypeOf(protogen.Oneof{})}
	elem := map[string]reflect.Type{"slice:file": reflect.TypeOf(&protogen.File{}), "slice:msg": reflect.TypeOf(&protogen.Message{}),
		"slice:field": reflect.TypeOf(&protogen.Field{}), "slice:oneof": reflect.TypeOf(&protogen.Oneof{})}
	var kinds []string
	for k := range gpFieldKind {
		kinds = append(kinds, k)
	}
	sort.Strings(kinds)
	for _, k := range kinds {
		var names []string
		for f := range gpFieldKind[k] {
			names = append(names, f)
		}
		sort.Strings(names)
		for _, f := range names {
			sf, ok := want[k].FieldByName(f)
			if !ok {
				return "no field " + k + "." + f
			}
			switch fk := gpFieldKind[k][f]; fk {
			case "bool":
				if sf.Type.Kind() != reflect.Bool {
					return k + "." + f + " is " + sf.Type.String()
				}
			case "str":
				if sf.Type.Kind() != reflect.String {
					return k + "." + f + " is " + sf.Type.String()
				}
			default:
				if sf.Type.Kind() != reflect.Slice || sf.Type.Elem() != elem[fk] {
					return k + "." + f + " is " + sf.Type.String()
				}
			}
		}
	}
	for _, d := range []struct {
		k string
		t reflect.Type
		m []string
	}{{"msg", reflect.TypeOf((*protoreflect.MessageDescriptor)(nil)).Elem(), []string{"FullName", "IsMapEntry"}},
		{"field", reflect.TypeOf((*protoreflect.FieldDescriptor)(nil)).Elem(), []string{"FullName"}},
		{"oneof", reflect.TypeOf((*protoreflect.OneofDescriptor)(nil)).Elem(), []string{"FullName", "IsSynthetic"}}} {
		sf, ok := want[d.k].FieldByName("Desc")
		if !ok || sf.Type != d.t {
			return d.k + ".Desc is not " + d.t.String()
		}
		for _, m := range d.m {
			mt, ok := d.t.MethodByName(m)
			if !ok || mt.Type.NumIn() != 0 || mt.Type.NumOut() != 1 {
				return d.k + ".Desc." + m
			}
			out := mt.Type.Out(0).Kind()
			if (m == "FullName" && out != reflect.String) || (m != "FullName" && out != reflect.Bool) {
				return d.k + ".Desc." + m + " returns " + mt.Type.Out(0).String()
			}
		}
	}
	if reflect.TypeOf(protoreflect.FullName("")).Kind() != reflect.String {
		return "protoreflect.FullName is no string type"
	}
	return "ok"
}
