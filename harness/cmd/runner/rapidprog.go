package main

// Engine "rapidprog" (task T16): translator tie for the hand-written /repo/rapidproto/rapidproto.go (property C18).
//
// On every run the file (under VERIF_REPO, default /repo) is parsed with go/parser and every top-level declaration is translated,
// purely syntactically, into the language of coq/Model/RapidProg.v; anything that is not one of the literal forms of that language
// makes the declaration `untranslatable:<line>:<col>:<why>`. Case lines (evaluated by driver/rapidprog_eval.ml):
//
//	RAPIDPROG     imports                     = the imported packages, sorted            model: canon_rapidproto_imports
//	RAPIDPROG     decls                       = the top-level declarations in order      model: kind:name of canon_rapidproto
//	RAPIDPROG     <name>                      = the printed translation                  model: print (canonical declaration of that name)
//	@RAPIDPROGDEF <name> <text>               = ok     context line: the driver parses and keeps the TRANSLATED declaration
//	RAPIDPROG     <name> eqb                  = same   model: rdecl_eqb <translated> <canonical>
//	RAPIDPROG     <name> diff                 = none   model: the first node at which the two printed declarations differ
//	@RSCHEMA / SCHEMA                                  the schemas and annotations, as engine "rapid" writes them
//	RAPIDPROGRUN  <schema> <message> <options> <tape seed> = ok
//	              model: the interpreter on the TRANSLATED program and on the canonical one against RapidGen.gen and rapid_in_range
//	              on a pseudo-random tape (rapid's bit stream cannot be replayed: there is no run of the Go code behind this line)
//
// Text form of a declaration (driver/rapidprog_eval.ml prints and parses the same):
//
//	d ::= (const x e) | (opaque kind name "text")
//	    | (func F (tparams (x "T")...) (recv (x "T"))|(norecv) (params (x "T")...) (results "T"...) (body s...))
//	s ::= (:= (x...) e) | (= (x...) e) | (var x "T") | (expr e) | (if (init s...) e (then s...) (else s...))
//	    | (switch (tag e)|(notag) (case (e...) s...)... (default s...)) | (for i n s...) | (range x e s...)
//	    | (return e...) | (continue) | (return-custom t "T" "T" s...)
//	e ::= nil | true | false | x | (int z) | (str "...") | (. e Field) | (kind K) | (max-int64) | (accepts-interface) | (no-value)
//	    | (not e) | (op e e) | (fn F e...) | (m M e e...) | (call f e...) | (mcall f e e...) | (index-ok e e) | (assert-type e "T")
//
// What the translator checks itself (no go/types): every package qualifier is an import of the expected path and is not shadowed;
// `nil`, `true`, `false`, `len`, `panic`, `string`, `int`, `int64` are the predeclared ones; a method name that is also the name of a
// method declared in the file is a call of that function; no name is declared in two nested scopes of one function (the
// interpreter's environment is flat); a `for` loop is exactly `for i := 0; i < n; i++` with a body that assigns neither i nor n;
// `range` has the form `for _, x := range e`; a loop body assigns no variable declared outside the loop; `default` is the last clause of a switch; no labels, goto, break, fallthrough, defer, go.

import (
	"bytes"
	"fmt"
	"go/ast"
	"go/constant"
	"go/parser"
	"go/printer"
	"go/token"
	"go/types"
	"os"
	"path/filepath"
	"sort"
	"strconv"
	"strings"
)

func init() { engines["rapidprog"] = engineRapidProg }

const rppRel = "rapidproto/rapidproto.go"

var rppWantImport = map[string]string{
	"fmt":           "fmt",
	"math":          "math",
	"cosmos_proto":  "github.com/cosmos/cosmos-proto",
	"proto":         "google.golang.org/protobuf/proto",
	"protoreflect":  "google.golang.org/protobuf/reflect/protoreflect",
	"protoregistry": "google.golang.org/protobuf/reflect/protoregistry",
	"assert":        "gotest.tools/v3/assert",
	"rapid":         "pgregory.net/rapid",
}

// functions that are outside the modelled part: compared as normalised source text
var rppOpaqueFuncs = map[string]bool{"WithAnyTypes": true, "WithDisallowNil": true, "WithInterfaceHint": true}

var rppMethods = map[string]string{
	"ProtoReflect": "RmProtoReflect", "Type": "RmType", "New": "RmNew", "Interface": "RmInterface", "Descriptor": "RmDescriptor",
	"FullName": "RmFullName", "Fields": "RmFields", "Len": "RmLen", "Get": "RmGet", "ByName": "RmByName", "Name": "RmName",
	"Kind": "RmKind", "IsList": "RmIsList", "IsMap": "RmIsMap", "MapKey": "RmMapKey", "MapValue": "RmMapValue", "Enum": "RmEnum",
	"Values": "RmValues", "Number": "RmNumber", "Options": "RmOptions", "Mutable": "RmMutable", "Set": "RmSet", "Clear": "RmClear",
	"NewField": "RmNewField", "List": "RmList", "Map": "RmMap", "Message": "RmMessage", "Append": "RmAppend",
	"AppendMutable": "RmAppendMutable", "Truncate": "RmTruncate", "Draw": "RmDraw", "Fatalf": "RmFatalf",
	"FindMessageByURL": "RmFindMessageByURL",
}

// pkg.F -> constructor, number of arguments (-1: any, at least one)
var rppPkgFuncs = map[string]struct {
	coq   string
	nargs int
}{
	"rapid.Bool": {"RfRapidBool", 0}, "rapid.Int32": {"RfRapidInt32", 0}, "rapid.Uint32": {"RfRapidUint32", 0},
	"rapid.Int64": {"RfRapidInt64", 0}, "rapid.Uint64": {"RfRapidUint64", 0}, "rapid.Float32": {"RfRapidFloat32", 0},
	"rapid.Float64": {"RfRapidFloat64", 0}, "rapid.String": {"RfRapidString", 0}, "rapid.Byte": {"RfRapidByte", 0},
	"rapid.SliceOf": {"RfRapidSliceOf", 1}, "rapid.SliceOfN": {"RfRapidSliceOfN", 3}, "rapid.StringMatching": {"RfRapidStringMatching", 1},
	"rapid.SampledFrom": {"RfRapidSampledFrom", 1}, "rapid.IntRange": {"RfRapidIntRange", 2}, "rapid.Int32Range": {"RfRapidInt32Range", 2},
	"rapid.Int64Range": {"RfRapidInt64Range", 2},
	"protoreflect.ValueOfInt32": {"RfValueOfInt32", 1}, "protoreflect.ValueOfUint32": {"RfValueOfUint32", 1},
	"protoreflect.ValueOfInt64": {"RfValueOfInt64", 1}, "protoreflect.ValueOfUint64": {"RfValueOfUint64", 1},
	"protoreflect.ValueOfBool": {"RfValueOfBool", 1}, "protoreflect.ValueOfBytes": {"RfValueOfBytes", 1},
	"protoreflect.ValueOfFloat32": {"RfValueOfFloat32", 1}, "protoreflect.ValueOfFloat64": {"RfValueOfFloat64", 1},
	"protoreflect.ValueOfEnum": {"RfValueOfEnum", 1}, "protoreflect.ValueOfString": {"RfValueOfString", 1},
	"protoreflect.ValueOfList": {"RfValueOfList", 1},
	"fmt.Sprintf": {"RfSprintf", -1}, "proto.Marshal": {"RfMarshal", 1}, "proto.HasExtension": {"RfHasExtension", 2},
	"proto.GetExtension": {"RfGetExtension", 2}, "assert.Assert": {"RfAssert", 2}, "assert.NilError": {"RfNilError", 2},
}
var rppBuiltins = map[string]struct {
	coq   string
	nargs int
}{"len": {"RfLen", 1}, "panic": {"RfPanic", 1}, "string": {"RfString", 1}, "int": {"RfInt", 1}, "int64": {"RfInt64", 1}}

var rppKinds = map[string]string{
	"DoubleKind": "KDouble", "FloatKind": "KFloat", "Int32Kind": "KInt32", "Int64Kind": "KInt64", "Uint32Kind": "KUint32",
	"Uint64Kind": "KUint64", "Sint32Kind": "KSint32", "Sint64Kind": "KSint64", "Fixed32Kind": "KFixed32", "Fixed64Kind": "KFixed64",
	"Sfixed32Kind": "KSfixed32", "Sfixed64Kind": "KSfixed64", "BoolKind": "KBool", "StringKind": "KString", "BytesKind": "KBytes",
	"EnumKind": "KEnum",
}
var rppOptFields = map[string]string{
	"AnyTypeURLs": "RoAnyTypeURLs", "InterfaceHints": "RoInterfaceHints", "Resolver": "RoResolver", "NoEmptyLists": "RoNoEmptyLists",
	"DisallowNilMessages": "RoDisallowNilMessages", "FieldMaps": "RoFieldMaps",
}
var rppBinOps = map[token.Token]string{
	token.ADD: "RbAdd", token.SUB: "RbSub", token.QUO: "RbDiv", token.EQL: "RbEq", token.NEQ: "RbNe", token.LSS: "RbLt",
	token.GTR: "RbGt", token.LAND: "RbAnd", token.LOR: "RbOr",
}

// a piece of translated syntax: its s-expression and the same thing as a Coq term of Model/RapidProg.v
type rpn struct{ sx, coq string }

type rppFail struct{ msg string }

type rppTr struct {
	fset    *token.FileSet
	imports map[string]string // name -> path
	methods map[string]bool   // methods declared in the file (with a receiver)
	funcs   map[string]bool   // plain functions declared in the file
	top     map[string]bool   // every top-level name
	optFlds map[string]bool   // fields of struct GeneratorOptions
	scopes  []map[string]bool
}

func (t *rppTr) fail(pos token.Pos, format string, a ...any) {
	p := t.fset.Position(pos)
	panic(rppFail{fmt.Sprintf("untranslatable:%d:%d:%s", p.Line, p.Column, fmt.Sprintf(format, a...))})
}

func rppCoqStr(s string) string { return `"` + strings.ReplaceAll(s, `"`, `""`) + `"` }

func (t *rppTr) sxStr(pos token.Pos, s string) string {
	var b strings.Builder
	b.WriteByte('"')
	for _, c := range []byte(s) {
		if c < 0x20 || c > 0x7e {
			t.fail(pos, "text with a character outside printable ASCII")
		}
		if c == '"' || c == '\\' {
			b.WriteByte('\\')
		}
		b.WriteByte(c)
	}
	b.WriteByte('"')
	return b.String()
}

func (t *rppTr) str(pos token.Pos, s string) rpn { return rpn{t.sxStr(pos, s), rppCoqStr(s)} }

func (t *rppTr) ident(pos token.Pos, s string) string {
	if s == "" {
		t.fail(pos, "empty identifier")
	}
	for _, c := range []byte(s) {
		if !(c == '_' || c >= '0' && c <= '9' || c >= 'a' && c <= 'z' || c >= 'A' && c <= 'Z') {
			t.fail(pos, "identifier %q outside ASCII", s)
		}
	}
	switch s {
	case "nil", "true", "false":
		t.fail(pos, "identifier %q collides with the text form", s)
	}
	return s
}

func rppList(xs []rpn) (sx, coq string) {
	var a, b []string
	for _, x := range xs {
		a = append(a, x.sx)
		b = append(b, x.coq)
	}
	sx = strings.Join(a, " ")
	if sx != "" {
		sx = " " + sx
	}
	return sx, "[" + strings.Join(b, "; ") + "]"
}

// ---- scopes: a name may be declared once along any chain of nested scopes ----
func (t *rppTr) push() { t.scopes = append(t.scopes, map[string]bool{}) }
func (t *rppTr) pop()  { t.scopes = t.scopes[:len(t.scopes)-1] }
func (t *rppTr) local(x string) bool {
	for _, s := range t.scopes {
		if s[x] {
			return true
		}
	}
	return false
}
func (t *rppTr) declare(pos token.Pos, x string) {
	if x == "_" {
		return
	}
	cur := t.scopes[len(t.scopes)-1]
	if cur[x] {
		return // redeclared in the same scope by a multi-valued := : the same variable
	}
	if t.local(x) {
		t.fail(pos, "%s is declared again in a nested scope", x)
	}
	if t.top[x] || t.imports[x] != "" {
		t.fail(pos, "%s shadows a package-level name", x)
	}
	cur[x] = true
}

// a name that must denote what it denotes in the universe / the import block
func (t *rppTr) free(id *ast.Ident) bool { return !t.local(id.Name) && !t.top[id.Name] }

func (t *rppTr) pkg(e ast.Expr) (string, bool) {
	id, ok := e.(*ast.Ident)
	if !ok || !t.free(id) {
		return "", false
	}
	p, ok := t.imports[id.Name]
	if !ok {
		return "", false
	}
	if rppWantImport[id.Name] != p {
		t.fail(e.Pos(), "package %s is %q", id.Name, p)
	}
	return id.Name, true
}

func (t *rppTr) typeText(e ast.Expr) rpn {
	s := types.ExprString(e)
	return t.str(e.Pos(), s)
}

func (t *rppTr) intLit(pos token.Pos, lit *ast.BasicLit, neg bool) rpn {
	v := constant.MakeFromLiteral(lit.Value, lit.Kind, 0)
	iv := constant.ToInt(v)
	if iv.Kind() != constant.Int {
		t.fail(pos, "numeric literal %s is not an integer", lit.Value)
	}
	s := iv.ExactString()
	if neg {
		s = "-" + s
	}
	coq := s
	if strings.HasPrefix(s, "-") {
		coq = "(" + s + ")"
	}
	return rpn{"(int " + s + ")", "RxInt " + coq}
}

func (t *rppTr) exprs(l []ast.Expr) []rpn {
	var out []rpn
	for _, e := range l {
		out = append(out, t.expr(e))
	}
	return out
}

func (t *rppTr) expr(e ast.Expr) rpn {
	switch x := e.(type) {
	case *ast.ParenExpr:
		return t.expr(x.X)
	case *ast.Ident:
		switch x.Name {
		case "nil", "true", "false":
			if !t.free(x) {
				t.fail(x.Pos(), "%s is redeclared", x.Name)
			}
			return map[string]rpn{"nil": {"nil", "RxNil"}, "true": {"true", "RxBool true"}, "false": {"false", "RxBool false"}}[x.Name]
		}
		if !t.local(x.Name) && !t.top[x.Name] {
			t.fail(x.Pos(), "identifier %s is neither a local nor a declaration of the file", x.Name)
		}
		if t.funcs[x.Name] || t.methods[x.Name] {
			t.fail(x.Pos(), "function %s used as a value", x.Name)
		}
		n := t.ident(x.Pos(), x.Name)
		return rpn{n, "RxVar " + rppCoqStr(n)}
	case *ast.BasicLit:
		switch x.Kind {
		case token.STRING:
			s, err := strconv.Unquote(x.Value)
			if err != nil {
				t.fail(x.Pos(), "string literal")
			}
			q := t.str(x.Pos(), s)
			return rpn{"(str " + q.sx + ")", "RxStr " + q.coq}
		case token.INT, token.FLOAT:
			return t.intLit(x.Pos(), x, false)
		}
		t.fail(x.Pos(), "literal %s", x.Value)
	case *ast.UnaryExpr:
		switch x.Op {
		case token.NOT:
			a := t.expr(x.X)
			return rpn{"(not " + a.sx + ")", "RxNot (" + a.coq + ")"}
		case token.SUB:
			if lit, ok := x.X.(*ast.BasicLit); ok && (lit.Kind == token.INT || lit.Kind == token.FLOAT) {
				return t.intLit(x.Pos(), lit, true)
			}
		}
		t.fail(x.Pos(), "unary operator %s", x.Op)
	case *ast.BinaryExpr:
		op, ok := rppBinOps[x.Op]
		if !ok {
			t.fail(x.Pos(), "operator %s", x.Op)
		}
		a, b := t.expr(x.X), t.expr(x.Y)
		return rpn{"(" + x.Op.String() + " " + a.sx + " " + b.sx + ")", "RxBin " + op + " (" + a.coq + ") (" + b.coq + ")"}
	case *ast.SelectorExpr:
		if p, ok := t.pkg(x.X); ok {
			switch {
			case p == "protoreflect" && x.Sel.Name == "MessageKind":
				return rpn{"(kind MessageKind)", "RxKind RkMessage"}
			case p == "protoreflect" && x.Sel.Name == "GroupKind":
				return rpn{"(kind GroupKind)", "RxKind RkGroup"}
			case p == "protoreflect" && rppKinds[x.Sel.Name] != "":
				return rpn{"(kind " + x.Sel.Name + ")", "RxKind (RkScalar " + rppKinds[x.Sel.Name] + ")"}
			case p == "math" && x.Sel.Name == "MaxInt64":
				return rpn{"(max-int64)", "RxMaxInt64"}
			case p == "cosmos_proto" && x.Sel.Name == "E_AcceptsInterface":
				return rpn{"(accepts-interface)", "RxAcceptsInterface"}
			}
			t.fail(x.Pos(), "%s.%s", p, x.Sel.Name)
		}
		if f, ok := rppOptFields[x.Sel.Name]; ok && t.optFlds[x.Sel.Name] {
			a := t.expr(x.X)
			return rpn{"(. " + a.sx + " " + x.Sel.Name + ")", "RxSel (" + a.coq + ") " + f}
		}
		t.fail(x.Pos(), "selector .%s", x.Sel.Name)
	case *ast.CompositeLit:
		if s, ok := x.Type.(*ast.SelectorExpr); ok && len(x.Elts) == 0 {
			if p, ok := t.pkg(s.X); ok && p == "protoreflect" && s.Sel.Name == "Value" {
				return rpn{"(no-value)", "RxNoValue"}
			}
		}
		t.fail(x.Pos(), "composite literal other than protoreflect.Value{}")
	case *ast.TypeAssertExpr:
		if x.Type == nil {
			t.fail(x.Pos(), "type switch")
		}
		a, ty := t.expr(x.X), t.typeText(x.Type)
		return rpn{"(assert-type " + a.sx + " " + ty.sx + ")", "RxAssertType (" + a.coq + ") " + ty.coq}
	case *ast.IndexExpr:
		t.fail(x.Pos(), "index expression outside `v, ok := m[k]`")
	case *ast.CallExpr:
		return t.call(x)
	}
	t.fail(e.Pos(), "expression form %T", e)
	return rpn{}
}

func (t *rppTr) call(x *ast.CallExpr) rpn {
	if x.Ellipsis != token.NoPos {
		t.fail(x.Pos(), "call with ...")
	}
	switch f := x.Fun.(type) {
	case *ast.Ident:
		if b, ok := rppBuiltins[f.Name]; ok && t.free(f) {
			if len(x.Args) != b.nargs {
				t.fail(x.Pos(), "%s with %d arguments", f.Name, len(x.Args))
			}
			sx, coq := rppList(t.exprs(x.Args))
			return rpn{"(fn " + f.Name + sx + ")", "RxFn " + b.coq + " " + coq}
		}
		if !t.local(f.Name) && !t.funcs[f.Name] {
			t.fail(x.Pos(), "call of %s, neither a function of this file nor a local", f.Name)
		}
		n := t.ident(f.Pos(), f.Name)
		sx, coq := rppList(t.exprs(x.Args))
		return rpn{"(call " + n + sx + ")", "RxCall " + rppCoqStr(n) + " None " + coq}
	case *ast.SelectorExpr:
		if p, ok := t.pkg(f.X); ok {
			pf, ok := rppPkgFuncs[p+"."+f.Sel.Name]
			if !ok {
				t.fail(x.Pos(), "call of %s.%s", p, f.Sel.Name)
			}
			if (pf.nargs >= 0 && len(x.Args) != pf.nargs) || (pf.nargs < 0 && len(x.Args) < 1) {
				t.fail(x.Pos(), "%s.%s with %d arguments", p, f.Sel.Name, len(x.Args))
			}
			sx, coq := rppList(t.exprs(x.Args))
			return rpn{"(fn " + p + "." + f.Sel.Name + sx + ")", "RxFn " + pf.coq + " " + coq}
		}
		r := t.expr(f.X)
		sx, coq := rppList(t.exprs(x.Args))
		if t.methods[f.Sel.Name] {
			n := t.ident(f.Sel.Pos(), f.Sel.Name)
			return rpn{"(mcall " + n + " " + r.sx + sx + ")", "RxCall " + rppCoqStr(n) + " (Some (" + r.coq + ")) " + coq}
		}
		if m, ok := rppMethods[f.Sel.Name]; ok {
			return rpn{"(m " + f.Sel.Name + " " + r.sx + sx + ")", "RxMeth " + m + " (" + r.coq + ") " + coq}
		}
		t.fail(x.Pos(), "method call .%s", f.Sel.Name)
	}
	t.fail(x.Pos(), "call form %T", x.Fun)
	return rpn{}
}

func (t *rppTr) block(l []ast.Stmt) []rpn {
	var out []rpn
	for _, s := range l {
		out = append(out, t.stmt(s))
	}
	return out
}

func (t *rppTr) scoped(l []ast.Stmt) (string, string) {
	t.push()
	defer t.pop()
	xs := t.block(l)
	sx, _ := rppList(xs)
	var b []string
	for _, x := range xs {
		b = append(b, x.coq)
	}
	if len(b) <= 1 {
		return sx, "[" + strings.Join(b, "; ") + "]"
	}
	return sx, "[ " + strings.Join(b, ";\n") + " ]"
}

// rppIndent: every line after the first is indented by the nesting depth of the brackets open at its start
func rppIndent(s string, base int) string {
	var b strings.Builder
	depth := 0
	inStr := false
	for i := 0; i < len(s); i++ {
		c := s[i]
		switch {
		case c == '"':
			inStr = !inStr
		case inStr:
		case c == '[' || c == '(':
			depth++
		case c == ']' || c == ')':
			depth--
		}
		b.WriteByte(c)
		if c == '\n' {
			b.WriteString(strings.Repeat(" ", base+depth))
		}
	}
	return b.String()
}

func (t *rppTr) lhsNames(l []ast.Expr) []string {
	var out []string
	for _, e := range l {
		id, ok := e.(*ast.Ident)
		if !ok {
			t.fail(e.Pos(), "assignment target that is not a variable")
		}
		if id.Name == "_" {
			out = append(out, "_")
		} else {
			out = append(out, t.ident(id.Pos(), id.Name))
		}
	}
	return out
}

func rppNames(xs []string) (string, string) {
	var q []string
	for _, x := range xs {
		q = append(q, rppCoqStr(x))
	}
	return "(" + strings.Join(xs, " ") + ")", "[" + strings.Join(q, "; ") + "]"
}

// does the statement list assign or declare one of the names?
func rppAssigns(l []ast.Stmt, names map[string]bool) bool {
	found := false
	for _, s := range l {
		ast.Inspect(s, func(n ast.Node) bool {
			switch x := n.(type) {
			case *ast.AssignStmt:
				for _, e := range x.Lhs {
					if id, ok := e.(*ast.Ident); ok && names[id.Name] {
						found = true
					}
				}
			case *ast.IncDecStmt:
				if id, ok := x.X.(*ast.Ident); ok && names[id.Name] {
					found = true
				}
			case *ast.RangeStmt:
				for _, e := range []ast.Expr{x.Key, x.Value} {
					if id, ok := e.(*ast.Ident); ok && names[id.Name] {
						found = true
					}
				}
			case *ast.ValueSpec:
				for _, id := range x.Names {
					if names[id.Name] {
						found = true
					}
				}
			case *ast.UnaryExpr:
				if id, ok := x.X.(*ast.Ident); ok && x.Op == token.AND && names[id.Name] {
					found = true
				}
			}
			return true
		})
	}
	return found
}

// a loop body may write only variables it declares itself (the interpreter runs every iteration in the environment of the loop)
func rppWritesOuter(l []ast.Stmt) (string, bool) {
	declared := map[string]bool{}
	var written []string
	for _, s := range l {
		ast.Inspect(s, func(n ast.Node) bool {
			switch x := n.(type) {
			case *ast.AssignStmt:
				for _, e := range x.Lhs {
					if id, ok := e.(*ast.Ident); ok {
						if x.Tok == token.DEFINE {
							declared[id.Name] = true
						} else {
							written = append(written, id.Name)
						}
					}
				}
			case *ast.IncDecStmt:
				if id, ok := x.X.(*ast.Ident); ok {
					written = append(written, id.Name)
				}
			case *ast.RangeStmt:
				for _, e := range []ast.Expr{x.Key, x.Value} {
					if id, ok := e.(*ast.Ident); ok {
						if x.Tok == token.DEFINE {
							declared[id.Name] = true
						} else {
							written = append(written, id.Name)
						}
					}
				}
			case *ast.ValueSpec:
				for _, id := range x.Names {
					declared[id.Name] = true
				}
			case *ast.UnaryExpr:
				if id, ok := x.X.(*ast.Ident); ok && x.Op == token.AND {
					written = append(written, id.Name)
				}
			}
			return true
		})
	}
	for _, w := range written {
		if w != "_" && !declared[w] {
			return w, true
		}
	}
	return "", false
}

func (t *rppTr) assign(x *ast.AssignStmt) rpn {
	if len(x.Rhs) != 1 {
		t.fail(x.Pos(), "assignment with several right-hand sides")
	}
	if x.Tok != token.DEFINE && x.Tok != token.ASSIGN {
		t.fail(x.Pos(), "assignment operator %s", x.Tok)
	}
	xs := t.lhsNames(x.Lhs)
	var e rpn
	if ix, ok := x.Rhs[0].(*ast.IndexExpr); ok && len(xs) == 2 {
		m, k := t.expr(ix.X), t.expr(ix.Index)
		e = rpn{"(index-ok " + m.sx + " " + k.sx + ")", "RxIndexOk (" + m.coq + ") (" + k.coq + ")"}
	} else {
		e = t.expr(x.Rhs[0])
	}
	nsx, ncoq := rppNames(xs)
	if x.Tok == token.DEFINE {
		for i, v := range xs {
			t.declare(x.Lhs[i].Pos(), v)
		}
		return rpn{"(:= " + nsx + " " + e.sx + ")", "RsDefine " + ncoq + " (" + e.coq + ")"}
	}
	for i, v := range xs {
		if v != "_" && !t.local(v) {
			t.fail(x.Lhs[i].Pos(), "assignment to %s, not a local", v)
		}
	}
	return rpn{"(= " + nsx + " " + e.sx + ")", "RsAssign " + ncoq + " (" + e.coq + ")"}
}

func (t *rppTr) stmt(s ast.Stmt) rpn {
	switch x := s.(type) {
	case *ast.AssignStmt:
		return t.assign(x)
	case *ast.DeclStmt:
		gd, ok := x.Decl.(*ast.GenDecl)
		if !ok || gd.Tok != token.VAR || len(gd.Specs) != 1 {
			t.fail(x.Pos(), "declaration statement other than `var x T`")
		}
		vs := gd.Specs[0].(*ast.ValueSpec)
		if len(vs.Names) != 1 || vs.Type == nil || len(vs.Values) != 0 {
			t.fail(x.Pos(), "declaration statement other than `var x T`")
		}
		n := t.ident(vs.Names[0].Pos(), vs.Names[0].Name)
		t.declare(vs.Names[0].Pos(), n)
		ty := t.typeText(vs.Type)
		return rpn{"(var " + n + " " + ty.sx + ")", "RsVar " + rppCoqStr(n) + " " + ty.coq}
	case *ast.ExprStmt:
		e := t.expr(x.X)
		return rpn{"(expr " + e.sx + ")", "RsExpr (" + e.coq + ")"}
	case *ast.IfStmt:
		t.push()
		defer t.pop()
		var init []rpn
		if x.Init != nil {
			a, ok := x.Init.(*ast.AssignStmt)
			if !ok {
				t.fail(x.Init.Pos(), "if with an init statement that is no assignment")
			}
			init = append(init, t.assign(a))
		}
		isx, icoq := rppList(init)
		c := t.expr(x.Cond)
		asx, acoq := t.scoped(x.Body.List)
		bsx, bcoq := "", "[]"
		switch el := x.Else.(type) {
		case nil:
		case *ast.BlockStmt:
			bsx, bcoq = t.scoped(el.List)
		case *ast.IfStmt:
			t.push()
			b := t.stmt(el)
			t.pop()
			bsx, bcoq = " "+b.sx, "["+b.coq+"]"
		default:
			t.fail(x.Else.Pos(), "else form")
		}
		return rpn{"(if (init" + isx + ") " + c.sx + " (then" + asx + ") (else" + bsx + "))",
			"RsIf " + icoq + " (" + c.coq + ")\n" + acoq + "\n" + bcoq}
	case *ast.SwitchStmt:
		if x.Init != nil {
			t.fail(x.Pos(), "switch with an init statement")
		}
		tsx, tcoq := "(notag)", "None"
		if x.Tag != nil {
			e := t.expr(x.Tag)
			tsx, tcoq = "(tag "+e.sx+")", "(Some ("+e.coq+"))"
		}
		var csx, ccoq []string
		dsx, dcoq := "", "[]"
		for i, c := range x.Body.List {
			cc := c.(*ast.CaseClause)
			_ = i
			for _, st := range cc.Body {
				if b, ok := st.(*ast.BranchStmt); ok && b.Tok == token.FALLTHROUGH {
					t.fail(b.Pos(), "fallthrough")
				}
			}
			if cc.List == nil {
				if i != len(x.Body.List)-1 {
					t.fail(cc.Pos(), "default is not the last clause")
				}
				dsx, dcoq = t.scoped(cc.Body)
				continue
			}
			esx, ecoq := rppList(t.exprs(cc.List))
			bsx, bcoq := t.scoped(cc.Body)
			csx = append(csx, "(case ("+strings.TrimPrefix(esx, " ")+")"+bsx+")")
			ccoq = append(ccoq, "("+ecoq+",\n"+bcoq+")")
		}
		all := ""
		if len(csx) > 0 {
			all = " " + strings.Join(csx, " ")
		}
		return rpn{"(switch " + tsx + all + " (default" + dsx + "))", "RsSwitch " + tcoq + "\n[ " + strings.Join(ccoq, ";\n") + " ]\n" + dcoq}
	case *ast.ForStmt:
		// for i := 0; i < n; i++ { … }
		init, ok1 := x.Init.(*ast.AssignStmt)
		cond, ok2 := x.Cond.(*ast.BinaryExpr)
		post, ok3 := x.Post.(*ast.IncDecStmt)
		if !ok1 || !ok2 || !ok3 || init.Tok != token.DEFINE || len(init.Lhs) != 1 || len(init.Rhs) != 1 || cond.Op != token.LSS || post.Tok != token.INC {
			t.fail(x.Pos(), "for statement other than `for i := 0; i < n; i++`")
		}
		iv, okI := init.Lhs[0].(*ast.Ident)
		zero, okZ := init.Rhs[0].(*ast.BasicLit)
		ci, okC := cond.X.(*ast.Ident)
		cn, okN := cond.Y.(*ast.Ident)
		pi, okP := post.X.(*ast.Ident)
		if !okI || !okZ || !okC || !okN || !okP || zero.Kind != token.INT || zero.Value != "0" || ci.Name != iv.Name || pi.Name != iv.Name || iv.Name == "_" {
			t.fail(x.Pos(), "for statement other than `for i := 0; i < n; i++`")
		}
		if !t.local(cn.Name) {
			t.fail(cn.Pos(), "the bound %s of the loop is not a local", cn.Name)
		}
		if rppAssigns(x.Body.List, map[string]bool{iv.Name: true, cn.Name: true}) {
			t.fail(x.Pos(), "the loop body assigns %s or %s", iv.Name, cn.Name)
		}
		if w, bad := rppWritesOuter(x.Body.List); bad {
			t.fail(x.Pos(), "the loop body assigns %s, declared outside the loop", w)
		}
		t.push()
		defer t.pop()
		i, n := t.ident(iv.Pos(), iv.Name), t.ident(cn.Pos(), cn.Name)
		t.declare(iv.Pos(), i)
		bsx, bcoq := t.scoped(x.Body.List)
		return rpn{"(for " + i + " " + n + bsx + ")", "RsFor " + rppCoqStr(i) + " " + rppCoqStr(n) + "\n" + bcoq}
	case *ast.RangeStmt:
		k, okK := x.Key.(*ast.Ident)
		v, okV := x.Value.(*ast.Ident)
		if !okK || !okV || k.Name != "_" || x.Tok != token.DEFINE {
			t.fail(x.Pos(), "range statement other than `for _, x := range e`")
		}
		e := t.expr(x.X)
		t.push()
		defer t.pop()
		n := "_"
		if v.Name != "_" {
			n = t.ident(v.Pos(), v.Name)
			t.declare(v.Pos(), n)
		}
		if rppAssigns(x.Body.List, map[string]bool{v.Name: true}) {
			t.fail(x.Pos(), "the loop body assigns %s", v.Name)
		}
		if w, bad := rppWritesOuter(x.Body.List); bad {
			t.fail(x.Pos(), "the loop body assigns %s, declared outside the loop", w)
		}
		bsx, bcoq := t.scoped(x.Body.List)
		return rpn{"(range " + n + " " + e.sx + bsx + ")", "RsRange " + rppCoqStr(n) + " (" + e.coq + ")\n" + bcoq}
	case *ast.ReturnStmt:
		if len(x.Results) == 1 {
			if r, ok := t.returnCustom(x.Results[0]); ok {
				return r
			}
		}
		sx, coq := rppList(t.exprs(x.Results))
		return rpn{"(return" + sx + ")", "RsReturn " + coq}
	case *ast.BranchStmt:
		if x.Tok == token.CONTINUE && x.Label == nil {
			return rpn{"(continue)", "RsContinue"}
		}
		t.fail(x.Pos(), "%s", x.Tok)
	}
	t.fail(s.Pos(), "statement form %T", s)
	return rpn{}
}

// return rapid.Custom(func(t *rapid.T) T { … })
func (t *rppTr) returnCustom(e ast.Expr) (rpn, bool) {
	c, ok := e.(*ast.CallExpr)
	if !ok || len(c.Args) != 1 || c.Ellipsis != token.NoPos {
		return rpn{}, false
	}
	s, ok := c.Fun.(*ast.SelectorExpr)
	if !ok || s.Sel.Name != "Custom" {
		return rpn{}, false
	}
	if p, ok := t.pkg(s.X); !ok || p != "rapid" {
		return rpn{}, false
	}
	fl, ok := c.Args[0].(*ast.FuncLit)
	if !ok {
		t.fail(c.Pos(), "rapid.Custom of something that is no function literal")
	}
	ft := fl.Type
	if ft.TypeParams != nil || ft.Params == nil || len(ft.Params.List) != 1 || len(ft.Params.List[0].Names) != 1 ||
		ft.Results == nil || len(ft.Results.List) != 1 || len(ft.Results.List[0].Names) != 0 {
		t.fail(fl.Pos(), "rapid.Custom of a function that is not func(t T1) T2")
	}
	t.push()
	defer t.pop()
	tn := t.ident(ft.Params.List[0].Names[0].Pos(), ft.Params.List[0].Names[0].Name)
	t.declare(fl.Pos(), tn)
	tty, rty := t.typeText(ft.Params.List[0].Type), t.typeText(ft.Results.List[0].Type)
	bsx, bcoq := t.scoped(fl.Body.List)
	return rpn{"(return-custom " + tn + " " + tty.sx + " " + rty.sx + bsx + ")",
		"RsReturnCustom " + rppCoqStr(tn) + " " + tty.coq + " " + rty.coq + "\n" + bcoq}, true
}

func (t *rppTr) fields(fl *ast.FieldList, what string) (names []string, out []rpn) {
	if fl == nil {
		return nil, nil
	}
	for _, f := range fl.List {
		ty := t.typeText(f.Type)
		if len(f.Names) == 0 {
			t.fail(f.Pos(), "%s without a name", what)
		}
		for _, n := range f.Names {
			x := n.Name
			if x != "_" {
				x = t.ident(n.Pos(), x)
			}
			names = append(names, x)
			out = append(out, rpn{"(" + x + " " + ty.sx + ")", "(" + rppCoqStr(x) + ", " + ty.coq + ")"})
		}
	}
	return names, out
}

type rppDecl struct {
	kind, name string // kind: const func type
	sx, coq    string // the translation, or untranslatable:…
}

func (t *rppTr) catch(f func() rpn) (r rpn) {
	defer func() {
		if e := recover(); e != nil {
			if fl, ok := e.(rppFail); ok {
				r = rpn{fl.msg, ""}
				return
			}
			panic(e)
		}
	}()
	return f()
}

// source text of a declaration without comments, white space normalised
func (t *rppTr) normText(n ast.Node) string {
	ast.Inspect(n, func(x ast.Node) bool {
		switch y := x.(type) {
		case *ast.Field:
			y.Doc, y.Comment = nil, nil
		case *ast.FuncDecl:
			y.Doc = nil
		case *ast.GenDecl:
			y.Doc = nil
		case *ast.TypeSpec:
			y.Doc, y.Comment = nil, nil
		case *ast.ValueSpec:
			y.Doc, y.Comment = nil, nil
		}
		return true
	})
	var buf bytes.Buffer
	if err := (&printer.Config{Mode: printer.RawFormat}).Fprint(&buf, token.NewFileSet(), n); err != nil {
		return "unprintable: " + err.Error()
	}
	return strings.Join(strings.Fields(buf.String()), " ")
}

func (t *rppTr) opaque(kind, name string, n ast.Node) rpn {
	return t.catch(func() rpn {
		txt := t.str(n.Pos(), t.normText(n))
		return rpn{"(opaque " + kind + " " + name + " " + txt.sx + ")", "RdOpaque " + rppCoqStr(kind) + " " + rppCoqStr(name) + " " + txt.coq}
	})
}

func (t *rppTr) function(fd *ast.FuncDecl) rpn {
	return t.catch(func() rpn {
		if fd.Body == nil {
			t.fail(fd.Pos(), "function without a body")
		}
		t.scopes = nil
		t.push()
		name := t.ident(fd.Name.Pos(), fd.Name.Name)
		_, tps := t.fields(fd.Type.TypeParams, "type parameter")
		recvSx, recvCoq := "(norecv)", "None"
		if fd.Recv != nil {
			names, rs := t.fields(fd.Recv, "receiver")
			if len(rs) != 1 {
				t.fail(fd.Pos(), "receiver list")
			}
			t.declare(fd.Recv.Pos(), names[0])
			recvSx, recvCoq = "(recv "+rs[0].sx+")", "(Some "+rs[0].coq+")"
		}
		pnames, ps := t.fields(fd.Type.Params, "parameter")
		for _, n := range pnames {
			t.declare(fd.Type.Params.Pos(), n)
		}
		var rs []rpn
		if fd.Type.Results != nil {
			for _, f := range fd.Type.Results.List {
				if len(f.Names) != 0 {
					t.fail(f.Pos(), "named results")
				}
				rs = append(rs, t.typeText(f.Type))
			}
		}
		tsx, tcoq := rppList(tps)
		psx, pcoq := rppList(ps)
		rsx, rcoq := rppList(rs)
		bsx, bcoq := t.scoped(fd.Body.List)
		return rpn{"(func " + name + " (tparams" + tsx + ") " + recvSx + " (params" + psx + ") (results" + rsx + ") (body" + bsx + "))",
			"RdFunc {| rf_name := " + rppCoqStr(name) + "; rf_tparams := " + tcoq + "; rf_recv := " + recvCoq + ";\n     rf_params := " + pcoq +
				"; rf_results := " + rcoq + ";\n     rf_body :=\n       " + rppIndent(bcoq, 7) + " |}"}
	})
}

func (t *rppTr) constant(vs *ast.ValueSpec, i int) rpn {
	return t.catch(func() rpn {
		if vs.Type != nil || len(vs.Values) != len(vs.Names) {
			t.fail(vs.Pos(), "constant with a type or without a value of its own")
		}
		t.scopes = nil
		t.push()
		n := t.ident(vs.Names[i].Pos(), vs.Names[i].Name)
		e := t.expr(vs.Values[i])
		return rpn{"(const " + n + " " + e.sx + ")", "RdConst " + rppCoqStr(n) + " (" + e.coq + ")"}
	})
}

// rppTranslate: the imports, and the declarations in source order with their translations
func rppTranslate(path string) (imports []string, decls []rppDecl, err error) {
	fset := token.NewFileSet()
	src, err := os.ReadFile(path)
	if err != nil {
		return nil, nil, err
	}
	file, err := parser.ParseFile(fset, path, src, parser.SkipObjectResolution)
	if err != nil {
		return nil, nil, err
	}
	t := &rppTr{fset: fset, imports: map[string]string{}, methods: map[string]bool{}, funcs: map[string]bool{}, top: map[string]bool{}, optFlds: map[string]bool{}}
	for _, im := range file.Imports {
		ip, _ := strconv.Unquote(im.Path.Value)
		name := filepath.Base(ip)
		if im.Name != nil {
			name = im.Name.Name
			imports = append(imports, name+"="+ip)
		} else {
			imports = append(imports, ip)
		}
		if _, dup := t.imports[name]; dup {
			t.imports[name] = "ambiguous"
		} else {
			t.imports[name] = ip
		}
	}
	sort.Strings(imports)
	for _, d := range file.Decls {
		switch x := d.(type) {
		case *ast.FuncDecl:
			if x.Recv != nil {
				t.methods[x.Name.Name] = true
			} else {
				t.funcs[x.Name.Name] = true
				t.top[x.Name.Name] = true
			}
		case *ast.GenDecl:
			for _, sp := range x.Specs {
				switch s := sp.(type) {
				case *ast.ValueSpec:
					for _, n := range s.Names {
						t.top[n.Name] = true
					}
				case *ast.TypeSpec:
					t.top[s.Name.Name] = true
					if st, ok := s.Type.(*ast.StructType); ok && s.Name.Name == "GeneratorOptions" {
						for _, f := range st.Fields.List {
							for _, n := range f.Names {
								t.optFlds[n.Name] = true
							}
						}
					}
				}
			}
		}
	}
	for _, d := range file.Decls {
		switch x := d.(type) {
		case *ast.FuncDecl:
			var r rpn
			if rppOpaqueFuncs[x.Name.Name] {
				r = t.opaque("func", x.Name.Name, x)
			} else {
				r = t.function(x)
			}
			decls = append(decls, rppDecl{"func", x.Name.Name, r.sx, r.coq})
		case *ast.GenDecl:
			if x.Tok == token.IMPORT {
				continue
			}
			for _, sp := range x.Specs {
				switch s := sp.(type) {
				case *ast.ValueSpec:
					for i, n := range s.Names {
						if x.Tok != token.CONST {
							decls = append(decls, rppDecl{"var", n.Name, fmt.Sprintf("untranslatable:%d:1:package-level variable", fset.Position(n.Pos()).Line), ""})
							continue
						}
						r := t.constant(s, i)
						decls = append(decls, rppDecl{"const", n.Name, r.sx, r.coq})
					}
				case *ast.TypeSpec:
					r := t.opaque("type", s.Name.Name, s)
					decls = append(decls, rppDecl{"type", s.Name.Name, r.sx, r.coq})
				}
			}
		}
	}
	return imports, decls, nil
}

func engineRapidProg(c config, o *out) {
	path := filepath.Join(gfRepo(), filepath.FromSlash(rppRel))
	imports, decls, err := rppTranslate(path)
	if err != nil {
		o.kase("RAPIDPROG", []string{"decls"}, "unreadable:"+strings.NewReplacer("\t", " ", "\n", " ").Replace(err.Error()))
		return
	}
	if len(c.extra) > 0 && c.extra[0] == "coq" {
		// the canonical program as Coq source (pasted into Model/RapidProg.v when the source changes on purpose)
		var names []string
		for _, d := range decls {
			fmt.Printf("Definition canon_%s : rdecl :=\n  %s.\n\n", d.name, d.coq)
			names = append(names, "canon_"+d.name)
		}
		fmt.Printf("Definition canon_rapidproto : list rdecl :=\n  [ %s ].\n", strings.Join(names, "; "))
		var ims []string
		for _, im := range imports {
			ims = append(ims, rppCoqStr(im))
		}
		fmt.Printf("Definition canon_rapidproto_imports : list gname :=\n  [ %s ].\n", strings.Join(ims, ";\n    "))
		return
	}
	o.kase("RAPIDPROG", []string{"imports"}, strings.Join(imports, " "))
	var names []string
	for _, d := range decls {
		names = append(names, d.kind+":"+d.name)
	}
	o.kase("RAPIDPROG", []string{"decls"}, strings.Join(names, " "))
	seen := map[string]bool{}
	for _, d := range decls {
		if seen[d.name] {
			o.kase("RAPIDPROG", []string{d.name}, "declared-twice")
			continue
		}
		seen[d.name] = true
		o.kase("RAPIDPROG", []string{d.name}, d.sx)
		if strings.HasPrefix(d.sx, "untranslatable:") {
			o.count("untranslatable")
			continue
		}
		o.kase("@RAPIDPROGDEF", []string{d.name, d.sx}, "ok")
		o.kase("RAPIDPROG", []string{d.name, "eqb"}, "same")
		o.kase("RAPIDPROG", []string{d.name, "diff"}, "none")
		o.count("translated_" + d.kind)
		o.nontrivial("decl/" + d.sx)
		for _, form := range []string{"(:=", "(=", "(var", "(expr", "(if", "(switch", "(for", "(range", "(return", "(continue)", "(return-custom",
			"(fn", "(m", "(call", "(mcall", "(index-ok", "(assert-type", "(opaque"} {
			k := "form_" + strings.TrimSuffix(form[1:], ")")
			if strings.HasSuffix(form, ")") {
				o.hist[k] += strings.Count(d.sx, form)
			} else {
				o.hist[k] += strings.Count(d.sx, form+" ")
			}
		}
		o.hist["draws"] += strings.Count(d.sx, "(m Draw ")
	}
	if len(c.extra) > 0 && c.extra[0] == "translate-only" {
		return
	}
	rppRuns(c, o)
}

// ---- runs of the interpreter (driver side) on the schemas of engine "rapid" --------------------------------------------------
func rppRuns(cfg config, o *out) {
	var all []*rschema
	for _, si := range loadSchemas() {
		all = append(all, &rschema{si: si, resolver: nil})
	}
	all = append(all, buildDynSchema())
	r := newRng(cfg.seed, "rapidprog")
	budget, tapes := 400.0, 2
	if cfg.thorough() {
		budget, tapes = 3000.0, 12
	}
	for _, rs := range all {
		si := rs.si
		o.raw("SCHEMA\t" + si.id + "\t=\t" + si.sexp())
		o.kase("@RSCHEMA", []string{si.id, rs.rsexp()}, "ok")
		// Any payload types: the cheapest message types, Any itself, as engine "rapid" chooses them
		type cand struct {
			idx  int
			cost float64
		}
		var cs []cand
		for _, mi := range si.msgs {
			if wktTag(mi.md) == "any" || reachesAny(si, mi, map[int]bool{}) || len(mi.fields) == 0 {
				continue
			}
			cs = append(cs, cand{mi.idx, rs.estimate(mi, ropts{})})
		}
		sort.SliceStable(cs, func(i, j int) bool { return cs[i].cost < cs[j].cost })
		var anyTypes []int
		for i := 0; i < len(cs) && len(anyTypes) < 3; i++ {
			anyTypes = append(anyTypes, cs[i].idx)
		}
		for _, mi := range si.msgs {
			if wktTag(mi.md) == "any" && len(anyTypes) > 0 {
				anyTypes = append(anyTypes, mi.idx)
			}
		}
		hints := map[int]int{}
		for i := range rs.ifaces {
			if len(anyTypes) > 0 {
				hints[i] = anyTypes[i%len(anyTypes)]
			}
		}
		for _, mi := range si.msgs {
			for _, ro := range rs.combos(anyTypes, hints) {
				if len(ro.any) > 0 && (len(anyTypes) == 0 || !reachesAny(si, mi, map[int]bool{})) {
					continue
				}
				if !cfg.thorough() && ro.fm != 0 && r.intn(3) != 0 {
					continue
				}
				if rs.estimate(mi, ro) > budget {
					o.count("run_skipped_cost")
					continue
				}
				for k := 0; k < tapes; k++ {
					seed := r.u64() >> 40
					o.kase("RAPIDPROGRUN", []string{si.id, strconv.Itoa(mi.idx), ro.token(), strconv.FormatUint(seed, 10)}, "ok")
					o.count("run")
					o.count("run_" + fmt.Sprintf("nel%v_dn%v_any%v_fm%d", ro.nel, ro.dn, len(ro.any) > 0, ro.fm))
					o.nontrivial("run/" + si.id + "/" + strconv.Itoa(mi.idx) + "/" + ro.token())
				}
			}
		}
	}
}
