package main

// Engine "lib" (C10): protobuf-go's generic algorithms (proto.Equal / Clone / Merge / Reset /
// CheckInitialized, protojson, prototext) on generated messages (G) versus dynamicpb messages
// (D) holding the same values. Values are built and read through package reflect (values.go),
// never through the reflection code under test.

import (
	"fmt"
	"os"
	"reflect"
	"runtime/debug"
	"strings"
	"unsafe"

	"google.golang.org/protobuf/encoding/protojson"
	"google.golang.org/protobuf/encoding/prototext"
	"google.golang.org/protobuf/encoding/protowire"
	"google.golang.org/protobuf/proto"
	"google.golang.org/protobuf/reflect/protoreflect"
	"google.golang.org/protobuf/runtime/protoiface"
	"google.golang.org/protobuf/types/dynamicpb"
)

func init() { engines["lib"] = engineLib }

func protowireConsumeField(b []byte) int {
	_, _, n := protowire.ConsumeField(b)
	return n
}

func catchPanic(f func()) (pan interface{}) {
	defer func() {
		if e := recover(); e != nil {
			pan = e
			if os.Getenv("VERIF_LIB_STACK") != "" {
				fmt.Fprintf(os.Stderr, "panic: %v\n%s\n", e, debug.Stack())
			}
		}
	}()
	f()
	return nil
}

func cloneV(v *V) *V {
	if v == nil {
		return nil
	}
	c := &V{K: v.K, I: v.I, U: v.U, Uns: v.Uns}
	if v.B != nil {
		c.B = append([]byte{}, v.B...)
	}
	if v.Unk != nil {
		c.Unk = append([]byte{}, v.Unk...)
	}
	for _, e := range v.L {
		c.L = append(c.L, cloneV(e))
	}
	c.P = cloneV(v.P)
	return c
}

// sortedStr renders a value with every map in canonical key order (what fromGo produces)
func sortedStr(v *V) string {
	w := cloneV(v)
	var walk func(x *V)
	walk = func(x *V) {
		if x == nil {
			return
		}
		if x.K == 'p' {
			sortMap(x)
		}
		for _, e := range x.L {
			walk(e)
		}
		walk(x.P)
	}
	walk(w)
	return w.String()
}

func tf(b bool) string {
	if b {
		return "t"
	}
	return "f"
}

type libCtx struct {
	o   *out
	si  *schemaInfo
	r   *rng
	cfg config
	g   *vgen
	// noModel: the set has shapes the extracted model does not know (explicit-presence scalars of proto2 types): no LIBEQ lines
	noModel bool
}

type variant struct {
	name string
	v    *V
}

func (c *libCtx) cmi(fd protoreflect.FieldDescriptor) *msgInfo {
	return c.si.byName[fd.Message().FullName()]
}

func isNaNBits(fd protoreflect.FieldDescriptor, u uint64) bool {
	if fd.Kind() == protoreflect.FloatKind {
		return uint32(u)&0x7f800000 == 0x7f800000 && uint32(u)&0x007fffff != 0
	}
	return u&0x7ff0000000000000 == 0x7ff0000000000000 && u&0x000fffffffffffff != 0
}

// scalarAlts: other values for one scalar (of which some are equal under proto.Equal: the sign
// of zero in an element position, another NaN, nil-vs-empty bytes)
func (c *libCtx) scalarAlts(fd protoreflect.FieldDescriptor, e *V) []variant {
	var out []variant
	g := c.g
	switch fd.Kind() {
	case protoreflect.FloatKind, protoreflect.DoubleKind:
		sign := uint64(1) << 63
		if fd.Kind() == protoreflect.FloatKind {
			sign = 1 << 31
		}
		out = append(out, variant{"fsign", vBits(e.U ^ sign)})
		if isNaNBits(fd, e.U) {
			out = append(out, variant{"nan2", vBits(e.U ^ 2)})
		} else {
			nan := uint64(0x7ff8000000000000)
			if fd.Kind() == protoreflect.FloatKind {
				nan = 0x7fc00000
			}
			out = append(out, variant{"tonan", vBits(nan)})
		}
		out = append(out, variant{"fother", g.scalarAt(fd, c.r.intn(g.boundaryCount(fd)+2))})
	case protoreflect.BytesKind:
		switch {
		case e.K == 'n':
			out = append(out, variant{"nil2emptybytes", vBytes(nil)})
		case len(e.B) == 0:
			out = append(out, variant{"empty2nilbytes", vNil})
		default:
			f := vBytes(e.B)
			f.B[len(f.B)-1] ^= 0x01
			out = append(out, variant{"byteflip", f}, variant{"bytecut", vBytes(e.B[:len(e.B)-1])})
		}
		out = append(out, variant{"byteext", vBytes(append(append([]byte{}, e.B...), 0))})
	default:
		for t := 0; t < 4; t++ {
			x := g.scalarAt(fd, c.r.intn(g.boundaryCount(fd)+2))
			if x.K == 'n' {
				continue
			}
			if x.String() != e.String() {
				out = append(out, variant{"other", x})
				break
			}
		}
		if z := zeroScalarV(fd); z.String() != e.String() {
			out = append(out, variant{"zero", z})
		}
	}
	return out
}

func (c *libCtx) isEmptyMsgV(mi *msgInfo, v *V) bool {
	return v.K == 'm' && len(v.Unk) == 0 && c.si.normV(mi, v).String() == c.si.normV(mi, c.si.emptyV(mi)).String()
}

// elemAlts: alternatives for a list element / map value / oneof payload / singular field content
func (c *libCtx) elemAlts(fd protoreflect.FieldDescriptor, e *V, depth int) []variant {
	if fd.Kind() != protoreflect.MessageKind {
		return c.scalarAlts(fd, e)
	}
	cmi := c.cmi(fd)
	var out []variant
	if e.K == 'n' {
		out = append(out, variant{"nil2emptymsg", c.si.emptyV(cmi)})
		if depth > 0 {
			out = append(out, variant{"nil2msg", c.g.msg(cmi, depth-1, 3)})
		}
		return out
	}
	out = append(out, variant{"msg2nil", vNil})
	if !c.isEmptyMsgV(cmi, e) {
		out = append(out, variant{"msg2empty", c.si.emptyV(cmi)})
	}
	if depth > 0 {
		out = append(out, variant{"nested", c.mutateOne(cmi, e, depth-1)})
	}
	return out
}

func pick(r *rng, vs []variant) (variant, bool) {
	if len(vs) == 0 {
		return variant{}, false
	}
	return vs[r.intn(len(vs))], true
}

func (c *libCtx) newKey(fd protoreflect.FieldDescriptor, seen map[string]bool) *V {
	for t := 0; t < 50; t++ {
		k := c.g.scalarAt(fd.MapKey(), c.r.intn(c.g.boundaryCount(fd.MapKey())+3))
		if !seen[k.String()] {
			return k
		}
	}
	return nil
}

func (c *libCtx) newElem(fd protoreflect.FieldDescriptor, depth int) *V {
	if fd.Kind() == protoreflect.MessageKind && depth <= 0 {
		return c.si.emptyV(c.cmi(fd))
	}
	return c.g.elem(fd, depth)
}

// slotAlts: alternatives for the slot of a non-oneof field
func (c *libCtx) slotAlts(fi fieldInfo, sv *V, depth int) []variant {
	fd := fi.fd
	r := c.r
	var out []variant
	switch {
	case fd.IsMap():
		seen := map[string]bool{}
		for j := 0; j+1 < len(sv.L); j += 2 {
			seen[sv.L[j].String()] = true
		}
		add := func(name string) {
			if k := c.newKey(fd, seen); k != nil {
				w := &V{K: 'p'}
				for _, e := range sv.L {
					w.L = append(w.L, cloneV(e))
				}
				w.L = append(w.L, k, c.newElem(fd.MapValue(), depth))
				sortMap(w)
				out = append(out, variant{name, w})
			}
		}
		switch {
		case sv.K == 'n':
			out = append(out, variant{"nilmap2empty", &V{K: 'p'}})
			add("map+1")
		case len(sv.L) == 0:
			out = append(out, variant{"emptymap2nil", vNil})
			add("map+1")
		default:
			n := len(sv.L) / 2
			j := r.intn(n)
			w := cloneV(sv)
			w.L = append(w.L[:2*j], w.L[2*j+2:]...)
			out = append(out, variant{"map-1", w})
			if a, ok := pick(r, c.elemAlts(fd.MapValue(), sv.L[2*j+1], depth)); ok {
				w := cloneV(sv)
				w.L[2*j+1] = a.v
				out = append(out, variant{"mapval/" + a.name, w})
			}
			if k := c.newKey(fd, seen); k != nil {
				w := cloneV(sv)
				w.L[2*j] = k
				sortMap(w)
				out = append(out, variant{"mapkey", w})
			}
			add("map+1")
			w = &V{K: 'p'}
			for j := len(sv.L) - 2; j >= 0; j -= 2 {
				w.L = append(w.L, cloneV(sv.L[j]), cloneV(sv.L[j+1]))
			}
			out = append(out, variant{"maprev", w})
		}
	case fd.IsList():
		switch {
		case sv.K == 'n':
			out = append(out, variant{"nillist2empty", &V{K: 'l'}}, variant{"list+1", &V{K: 'l', L: []*V{c.newElem(fd, depth)}}})
		case len(sv.L) == 0:
			out = append(out, variant{"emptylist2nil", vNil}, variant{"list+1", &V{K: 'l', L: []*V{c.newElem(fd, depth)}}})
		default:
			n := len(sv.L)
			w := cloneV(sv)
			w.L = w.L[:n-1]
			out = append(out, variant{"list-1", w})
			w = cloneV(sv)
			w.L = append(w.L, c.newElem(fd, depth))
			out = append(out, variant{"list+1", w})
			w = cloneV(sv)
			w.L = append(w.L, cloneV(sv.L[n-1]))
			out = append(out, variant{"listdup", w})
			j := r.intn(n)
			if a, ok := pick(r, c.elemAlts(fd, sv.L[j], depth)); ok {
				w := cloneV(sv)
				w.L[j] = a.v
				out = append(out, variant{"listelem/" + a.name, w})
			}
			if n >= 2 {
				w := cloneV(sv)
				w.L[0], w.L[n-1] = w.L[n-1], w.L[0]
				out = append(out, variant{"listswap", w})
			}
		}
	case presScalar(fd):
		// explicit presence: unset <-> set (to the zero value too) is a difference of its own
		if sv.K == 'n' {
			z := zeroScalarV(fd)
			if z.K == 'n' {
				z = vBytes(nil)
			}
			out = append(out, variant{"unset2zero", z})
			if x := c.g.scalarAt(fd, 1+c.r.intn(c.g.boundaryCount(fd))); x.K != 'n' {
				out = append(out, variant{"unset2set", x})
			}
		} else {
			out = append(out, variant{"set2unset", vNil})
			for _, a := range c.scalarAlts(fd, sv) {
				if a.v.K != 'n' {
					out = append(out, a)
				}
			}
		}
	default:
		out = c.elemAlts(fd, sv, depth)
		if fd.Kind() == protoreflect.MessageKind {
			for i := range out {
				if out[i].name == "msg2nil" {
					out[i].name = "msg2unset"
				}
				if out[i].name == "nil2emptymsg" {
					out[i].name = "unset2emptymsg"
				}
			}
		}
	}
	return out
}

func (c *libCtx) zeroPayload(fd protoreflect.FieldDescriptor) *V {
	if fd.Kind() == protoreflect.MessageKind {
		if c.g.nilElems && c.r.bool() {
			return vNil
		}
		return c.si.emptyV(c.cmi(fd))
	}
	return zeroScalarV(fd)
}

// splitRecords cuts raw unknown bytes into records
func splitRecords(b []byte) [][]byte {
	var out [][]byte
	for len(b) > 0 {
		n := protowireConsumeField(b)
		if n <= 0 {
			return append(out, b)
		}
		out = append(out, b[:n])
		b = b[n:]
	}
	return out
}

// number of "sites" of a message where one thing can be changed
func (c *libCtx) sites(mi *msgInfo) (plain []int, oneofs [][]int) {
	byOne := map[int][]int{}
	var order []int
	for i, fi := range mi.fields {
		if fi.oneofIdx >= 0 {
			if _, ok := byOne[fi.oneofIdx]; !ok {
				order = append(order, fi.oneofIdx)
			}
			byOne[fi.oneofIdx] = append(byOne[fi.oneofIdx], i)
		} else {
			plain = append(plain, i)
		}
	}
	for _, oi := range order {
		oneofs = append(oneofs, byOne[oi])
	}
	return
}

// variantsAt: the one-thing-different variants of v at one site (site < 0: all sites)
func (c *libCtx) variantsAt(mi *msgInfo, v *V, depth int, site int) []variant {
	plain, oneofs := c.sites(mi)
	var out []variant
	put := func(name string, f func(w *V)) {
		w := cloneV(v)
		f(w)
		out = append(out, variant{name, w})
	}
	for s, i := range plain {
		if site >= 0 && site != s {
			continue
		}
		for _, a := range c.slotAlts(mi.fields[i], v.L[i], depth) {
			a := a
			put(string(mi.fields[i].fd.Name())+":"+a.name, func(w *V) { w.L[i] = a.v })
		}
	}
	for s, members := range oneofs {
		if site >= 0 && site != len(plain)+s {
			continue
		}
		cur := -1
		for _, i := range members {
			if v.L[i].K == 's' {
				cur = i
			}
		}
		oname := string(mi.fields[members[0]].fd.ContainingOneof().Name())
		if cur >= 0 {
			put(oname+":oneof-unset", func(w *V) { w.L[cur] = vNil })
			if a, ok := pick(c.r, c.elemAlts(mi.fields[cur].fd, v.L[cur].P, depth)); ok {
				name := a.name
				if name == "msg2nil" {
					name = "payload2nil"
				}
				put(oname+":oneof-content/"+name, func(w *V) { w.L[cur] = &V{K: 's', P: a.v} })
			}
			if len(members) > 1 {
				j := members[c.r.intn(len(members))]
				for j == cur {
					j = members[c.r.intn(len(members))]
				}
				put(oname+":oneof-switch-zero", func(w *V) { w.L[cur] = vNil; w.L[j] = &V{K: 's', P: c.zeroPayload(mi.fields[j].fd)} })
				put(oname+":oneof-switch", func(w *V) { w.L[cur] = vNil; w.L[j] = &V{K: 's', P: c.newElem(mi.fields[j].fd, depth)} })
			}
		} else {
			j := members[c.r.intn(len(members))]
			put(oname+":oneof-set-zero", func(w *V) { w.L[j] = &V{K: 's', P: c.zeroPayload(mi.fields[j].fd)} })
			j = members[c.r.intn(len(members))]
			put(oname+":oneof-set", func(w *V) { w.L[j] = &V{K: 's', P: c.newElem(mi.fields[j].fd, depth)} })
		}
	}
	if site < 0 || site == len(plain)+len(oneofs) {
		put("unknown+1", func(w *V) { w.Unk = append(w.Unk, genUnknownFor(c.r, mi)...) })
		if len(v.Unk) > 0 {
			put("unknown-all", func(w *V) { w.Unk = nil })
			recs := splitRecords(v.Unk)
			if len(recs) >= 2 {
				put("unknown-swap", func(w *V) {
					w.Unk = nil
					recs[0], recs[len(recs)-1] = recs[len(recs)-1], recs[0]
					for _, rr := range recs {
						w.Unk = append(w.Unk, rr...)
					}
					recs[0], recs[len(recs)-1] = recs[len(recs)-1], recs[0]
				})
				put("unknown-1", func(w *V) { w.Unk = w.Unk[:len(w.Unk)-len(recs[len(recs)-1])] })
			}
		}
	}
	return out
}

func (c *libCtx) mutateOne(mi *msgInfo, v *V, depth int) *V {
	plain, oneofs := c.sites(mi)
	n := len(plain) + len(oneofs) + 1
	for t := 0; t < 6; t++ {
		if a, ok := pick(c.r, c.variantsAt(mi, v, depth, c.r.intn(n))); ok {
			return a.v
		}
	}
	w := cloneV(v)
	w.Unk = append(w.Unk, genUnknownFor(c.r, mi)...)
	return w
}

// sameValueAlt: the same message value built differently: maps listed in reverse order, nil and
// empty containers / bytes swapped, nil payloads and empty messages swapped (NOT for singular
// message fields, where presence is part of the value)
func (c *libCtx) sameValueAlt(mi *msgInfo, v *V) *V {
	w := &V{K: 'm', Unk: append([]byte{}, v.Unk...)}
	var elem func(fd protoreflect.FieldDescriptor, e *V) *V
	elem = func(fd protoreflect.FieldDescriptor, e *V) *V {
		switch fd.Kind() {
		case protoreflect.MessageKind:
			cmi := c.cmi(fd)
			if e.K == 'n' {
				return c.si.emptyV(cmi)
			}
			if c.g.nilElems && c.isEmptyMsgV(cmi, e) {
				return vNil
			}
			return c.sameValueAlt(cmi, e)
		case protoreflect.BytesKind:
			if e.K == 'n' {
				return vBytes(nil)
			}
			if len(e.B) == 0 {
				return vNil
			}
		}
		return cloneV(e)
	}
	for i, fi := range mi.fields {
		sv := v.L[i]
		fd := fi.fd
		switch {
		case fd.IsMap():
			switch {
			case sv.K == 'n':
				w.L = append(w.L, &V{K: 'p'})
			case len(sv.L) == 0:
				w.L = append(w.L, vNil)
			default:
				m := &V{K: 'p'}
				for j := len(sv.L) - 2; j >= 0; j -= 2 {
					m.L = append(m.L, cloneV(sv.L[j]), elem(fd.MapValue(), sv.L[j+1]))
				}
				w.L = append(w.L, m)
			}
		case fd.IsList():
			switch {
			case sv.K == 'n':
				w.L = append(w.L, &V{K: 'l'})
			case len(sv.L) == 0:
				w.L = append(w.L, vNil)
			default:
				l := &V{K: 'l'}
				for _, e := range sv.L {
					l.L = append(l.L, elem(fd, e))
				}
				w.L = append(w.L, l)
			}
		case fi.oneofIdx >= 0:
			if sv.K == 's' {
				w.L = append(w.L, &V{K: 's', P: elem(fd, sv.P)})
			} else {
				w.L = append(w.L, vNil)
			}
		case fd.Kind() == protoreflect.MessageKind:
			if sv.K == 'n' {
				w.L = append(w.L, vNil)
			} else {
				w.L = append(w.L, c.sameValueAlt(c.cmi(fd), sv))
			}
		case presScalar(fd):
			w.L = append(w.L, cloneV(sv)) // nil bytes = unset, empty bytes = set: not the same value
		default:
			w.L = append(w.L, elem(fd, sv))
		}
	}
	return w
}

// ---- scribbling over a struct through package reflect (deep): every byte slice, every
// container, every nested message reachable from p is overwritten in place -------------------
func scribbleStruct(p reflect.Value) {
	if p.Kind() != reflect.Ptr || p.IsNil() || p.Elem().Kind() != reflect.Struct {
		return
	}
	s := p.Elem()
	for i := 0; i < s.NumField(); i++ {
		sf := s.Type().Field(i)
		f := s.Field(i)
		if sf.Name == "unknownFields" {
			b := reflect.NewAt(f.Type(), unsafe.Pointer(f.UnsafeAddr())).Elem()
			for j := 0; j < b.Len(); j++ {
				b.Index(j).SetUint(b.Index(j).Uint() ^ 0xFF)
			}
			continue
		}
		if sf.PkgPath != "" {
			continue // state, sizeCache
		}
		scribbleVal(f)
	}
}

func scribbleVal(f reflect.Value) {
	switch f.Kind() {
	case reflect.Ptr:
		if !f.IsNil() && f.Elem().Kind() != reflect.Struct {
			scribbleVal(f.Elem()) // *T of an explicit-presence scalar: overwrite the pointee
			return
		}
		scribbleStruct(f)
	case reflect.Interface:
		if !f.IsNil() {
			w := f.Elem() // *Wrapper
			if w.Kind() == reflect.Ptr && !w.IsNil() && w.Elem().Kind() == reflect.Struct && w.Elem().NumField() > 0 {
				scribbleVal(w.Elem().Field(0))
			}
		}
	case reflect.Slice:
		for j := 0; j < f.Len(); j++ {
			scribbleVal(f.Index(j))
		}
	case reflect.Map:
		if f.IsNil() {
			return
		}
		it := f.MapRange()
		var keys []reflect.Value
		for it.Next() {
			keys = append(keys, it.Key())
			val := it.Value()
			switch val.Kind() {
			case reflect.Ptr:
				scribbleStruct(val)
			case reflect.Slice:
				scribbleVal(val) // bytes in place
			}
		}
		for _, k := range keys {
			val := f.MapIndex(k)
			if val.Kind() != reflect.Ptr && val.Kind() != reflect.Slice {
				nv := reflect.New(val.Type()).Elem()
				nv.Set(val)
				scribbleVal(nv)
				f.SetMapIndex(k, nv)
			}
		}
		if len(keys) > 0 {
			f.SetMapIndex(keys[0], reflect.Value{}) // delete one entry
		}
		f.SetMapIndex(reflect.Zero(f.Type().Key()), reflect.Zero(f.Type().Elem()))
	case reflect.Bool:
		if f.CanSet() {
			f.SetBool(!f.Bool())
		}
	case reflect.Int32, reflect.Int64, reflect.Int:
		if f.CanSet() {
			f.SetInt(f.Int() ^ 0x55)
		}
	case reflect.Uint8, reflect.Uint32, reflect.Uint64:
		if f.CanSet() {
			f.SetUint(f.Uint() ^ 0x55)
		}
	case reflect.Float32, reflect.Float64:
		if f.CanSet() {
			f.SetFloat(12345.5)
		}
	case reflect.String:
		if f.CanSet() {
			f.SetString("scribbled:" + f.String())
		}
	}
}

func (c *libCtx) id(mi *msgInfo) string {
	n := string(mi.md.FullName())
	if p := string(mi.md.ParentFile().Package()); p != "" {
		n = strings.TrimPrefix(n, p+".")
	}
	return c.si.id + "." + n
}

func (c *libCtx) newG(mi *msgInfo) proto.Message {
	return reflect.New(mi.goType).Interface().(proto.Message)
}
func (c *libCtx) G(mi *msgInfo, v *V) proto.Message { return c.si.toGo(mi, v).Interface().(proto.Message) }
func (c *libCtx) rawG(mi *msgInfo, m proto.Message) string {
	return c.si.fromGo(mi, reflect.ValueOf(m)).String()
}
func (c *libCtx) normG(mi *msgInfo, m proto.Message) string {
	return c.si.normV(mi, c.si.fromGo(mi, reflect.ValueOf(m))).String()
}
func (c *libCtx) normD(mi *msgInfo, m protoreflect.Message) string {
	return c.si.normV(mi, c.si.fromPR(mi, m)).String()
}

// ---- proto.Equal ------------------------------------------------------------------------------
func (c *libCtx) equalPair(mi *msgInfo, v, w *V, vname string) {
	o, si := c.o, c.si
	g1, g2 := c.G(mi, v), c.G(mi, w)
	d1, d2 := si.toDyn(mi, v), si.toDyn(mi, w)
	raw1, raw2 := c.rawG(mi, g1), c.rawG(mi, g2)
	var eg, egr, ed, x1, x2 bool
	pan := catchPanic(func() {
		eg = proto.Equal(g1, g2)
		egr = proto.Equal(g2, g1)
		ed = proto.Equal(d1, d2)
		x1 = proto.Equal(g1, d2)
		x2 = proto.Equal(d1, g2)
	})
	obs := tf(eg)
	if pan != nil {
		obs = "panic"
	}
	if !c.noModel {
		o.kase("LIBEQ", []string{si.id, fmt.Sprint(mi.idx), v.String(), w.String()}, obs)
	}
	o.count("equal_" + obs)
	kind := vname
	if i := strings.IndexByte(kind, ':'); i >= 0 {
		kind = kind[i+1:]
	}
	o.count("equal[" + kind + "]_" + obs)
	o.nontrivial(si.id + "/" + fmt.Sprint(mi.idx) + "/equal/" + vname + "/" + obs)
	o.withKey("lib/"+c.id(mi)+"/equal").prop("C10", pan == nil && eg == ed && egr == ed && x1 == ed && x2 == ed,
		fmt.Sprintf("proto.Equal on %s, variant %s: generated(a,b)=%v generated(b,a)=%v reference dynamicpb(a,b)=%v Equal(generated a, dynamicpb b)=%v Equal(dynamicpb a, generated b)=%v panic=%v; a=%s b=%s",
			c.id(mi), vname, eg, egr, ed, x1, x2, pan, v, w))
	o.withKey("lib/"+c.id(mi)+"/equal").prop("C10", c.rawG(mi, g1) == raw1 && c.rawG(mi, g2) == raw2,
		fmt.Sprintf("proto.Equal modified one of its arguments (%s): a=%s b=%s", c.id(mi), v, w))
}

// ---- proto.Clone ------------------------------------------------------------------------------
func (c *libCtx) clone(mi *msgInfo, v *V) {
	o, si := c.o, c.si
	key := "lib/" + c.id(mi) + "/clone"
	g := c.G(mi, v)
	var cl, cl2 proto.Message
	var eq, eqr bool
	pan := catchPanic(func() {
		cl = proto.Clone(g)
		cl2 = proto.Clone(g)
		eq = proto.Equal(cl, g)
		eqr = proto.Equal(g, cl)
	})
	if pan != nil {
		o.withKey(key).prop("C10", false, fmt.Sprintf("proto.Clone of %s panics: %v; value %s", c.id(mi), pan, v))
		o.count("clone_panic")
		return
	}
	o.count("clone_ok")
	want := si.normV(mi, v).String()
	got := c.normG(mi, cl)
	sameType := reflect.TypeOf(cl) == reflect.TypeOf(g) && reflect.ValueOf(cl).Pointer() != reflect.ValueOf(g).Pointer()
	d := si.toDyn(mi, v)
	refEq := proto.Equal(proto.Clone(d), d)
	o.withKey(key).prop("C10", eq && eqr && eq == refEq && got == want && sameType && c.rawG(mi, g) == sortedStr(v),
		fmt.Sprintf("proto.Clone of %s: Equal(clone, orig)=%v Equal(orig, clone)=%v (reference %v), clone reads %s, original denotes %s, fresh object of the same type=%v; value %s",
			c.id(mi), eq, eqr, refEq, got, want, sameType, v))
	// independence both ways
	snap2 := c.rawG(mi, cl2)
	scribbleStruct(reflect.ValueOf(cl))
	after := c.rawG(mi, g)
	o.withKey(key).prop("C10", after == sortedStr(v), fmt.Sprintf("proto.Clone of %s is not independent: after overwriting every container, nested message and byte slice of the clone the original reads %s, before %s", c.id(mi), after, v))
	scribbleStruct(reflect.ValueOf(g))
	after2 := c.rawG(mi, cl2)
	o.withKey(key).prop("C10", after2 == snap2, fmt.Sprintf("proto.Clone of %s is not independent: after overwriting the original (%s) the clone reads %s, before %s", c.id(mi), v, after2, snap2))
}

// ---- proto.Merge ------------------------------------------------------------------------------
func (c *libCtx) merge(mi *msgInfo, dst, src *V, what string) {
	o, si := c.o, c.si
	key := "lib/" + c.id(mi) + "/merge"
	gd, gs := c.G(mi, dst), c.G(mi, src)
	dd, ds := si.toDyn(mi, dst), si.toDyn(mi, src)
	pan := catchPanic(func() { proto.Merge(gd, gs) })
	panD := catchPanic(func() { proto.Merge(dd, ds) })
	if pan != nil || panD != nil {
		o.count("merge_panic")
		if ps := fmt.Sprint(pan); panD == nil && strings.Contains(dst.String(), "(s n)") && (strings.Contains(ps, "cannot merge into invalid") || strings.Contains(ps, "merging into nil message")) {
			// Mutable of a oneof message member whose wrapper holds a nil pointer returns the invalid message
			key = "lib/merge-oneof-nil-payload/" + c.id(mi)
		}
		o.withKey(key).prop("C10", (pan != nil) == (panD != nil), fmt.Sprintf("proto.Merge(dst, src) on %s (%s): generated panic=%v, reference panic=%v; dst=%s src=%s", c.id(mi), what, pan, panD, dst, src))
		return
	}
	o.count("merge_ok")
	a, b := c.normG(mi, gd), c.normD(mi, dd.ProtoReflect())
	var xeq bool
	panE := catchPanic(func() { xeq = proto.Equal(gd, dd) && proto.Equal(dd, gd) })
	o.nontrivial(si.id + "/" + fmt.Sprint(mi.idx) + "/merge/" + what)
	o.withKey(key).prop("C10", a == b && xeq && panE == nil, fmt.Sprintf("proto.Merge(dst, src) on %s (%s): generated gives %s, reference gives %s (Equal across implementations=%v, panic=%v); dst=%s src=%s", c.id(mi), what, a, b, xeq, panE, dst, src))
	o.withKey(key).prop("C10", c.rawG(mi, gs) == sortedStr(src), fmt.Sprintf("proto.Merge on %s modified its source: before %s after %s", c.id(mi), src, c.rawG(mi, gs)))
	// the result shares nothing with the source
	rawBefore := c.rawG(mi, gd)
	scribbleStruct(reflect.ValueOf(gs))
	rawAfter := c.rawG(mi, gd)
	o.withKey(key).prop("C10", rawBefore == rawAfter, fmt.Sprintf("proto.Merge on %s: the destination shares memory with the source: after overwriting the source it reads %s, before %s (dst=%s src=%s)", c.id(mi), rawAfter, rawBefore, dst, src))
}

// ---- proto.Reset / CheckInitialized --------------------------------------------------------------
func (c *libCtx) resetAndInit(mi *msgInfo, v *V) {
	o, si := c.o, c.si
	g := c.G(mi, v)
	d := si.toDyn(mi, v)
	var eG, eD error
	pan := catchPanic(func() { eG = proto.CheckInitialized(g) })
	eD = proto.CheckInitialized(d)
	o.count("checkinit")
	o.withKey("lib/"+c.id(mi)+"/checkinitialized").prop("C10", pan == nil && (eG == nil) == (eD == nil) && c.rawG(mi, g) == sortedStr(v),
		fmt.Sprintf("proto.CheckInitialized on %s: generated %v (panic %v), reference %v; value %s", c.id(mi), eG, pan, eD, v))
	var size int
	var eqFresh, eqFreshD bool
	pan = catchPanic(func() {
		proto.Reset(g)
		size = proto.Size(g)
		eqFresh = proto.Equal(g, c.newG(mi))
	})
	proto.Reset(d)
	eqFreshD = proto.Equal(d, dynamicpb.NewMessage(mi.md))
	raw := "panic"
	if pan == nil {
		raw = c.rawG(mi, g)
	}
	o.count("reset")
	empty := si.emptyV(mi)
	o.withKey("lib/"+c.id(mi)+"/reset").prop("C10", pan == nil && si.normV(mi, si.fromGo(mi, reflect.ValueOf(g))).String() == c.normD(mi, d.ProtoReflect()) && size == 0 && eqFresh == eqFreshD && raw == empty.String(),
		fmt.Sprintf("proto.Reset on %s: message then reads %s (want the zero struct %s), Size %d, Equal(fresh)=%v (reference %v), panic=%v; value %s", c.id(mi), raw, empty, size, eqFresh, eqFreshD, pan, v))
}

// ---- required fields below a generated message: initialised or not -------------------------------------
// A generated message is initialised iff every message below it (of whatever implementation: generated, protobuf-go's own
// proto2 types) has its required fields set. Whatever decides that for a generated message (the library's walk over its
// reflection, or a CheckInitialized the generated ProtoMethods supply) must agree with the library's walk over a dynamicpb
// message holding the same value, and so must everything that reports it: binary Marshal / Unmarshal, protojson, prototext,
// each with and without AllowPartial. Results are compared whenever both sides succeed.
type partialText struct {
	name                string
	marshalPartial      func(proto.Message) ([]byte, error)
	unmarshal, unmarshP func([]byte, proto.Message) error
}

var partialTexts = []partialText{
	{"protojson", protojson.MarshalOptions{AllowPartial: true}.Marshal, protojson.Unmarshal, protojson.UnmarshalOptions{AllowPartial: true}.Unmarshal},
	{"prototext", prototext.MarshalOptions{AllowPartial: true}.Marshal, prototext.Unmarshal, prototext.UnmarshalOptions{AllowPartial: true}.Unmarshal},
}

func (c *libCtx) fieldMsg(fd protoreflect.FieldDescriptor) *msgInfo {
	if fd.IsMap() {
		fd = fd.MapValue()
	}
	if fd.Message() == nil {
		return nil
	}
	return c.si.byName[fd.Message().FullName()]
}

// hasRequired: is a required field declared by the message or anywhere below it
func (c *libCtx) hasRequired(mi *msgInfo, seen map[*msgInfo]bool) bool {
	if mi == nil || seen[mi] {
		return false
	}
	seen[mi] = true
	if mi.md.RequiredNumbers().Len() > 0 {
		return true
	}
	for _, fi := range mi.fields {
		if c.hasRequired(c.fieldMsg(fi.fd), seen) {
			return true
		}
	}
	return false
}

// requiredOneHots: every field of mi through which a required field can be reached, populated alone (a few values each:
// some initialised, some with a required field unset at some depth)
func (c *libCtx) requiredOneHots(mi *msgInfo, perField, maxVar int) {
	for i, fi := range mi.fields {
		if !c.hasRequired(c.fieldMsg(fi.fd), map[*msgInfo]bool{}) {
			continue
		}
		for k := 0; k < perField; k++ {
			v := c.si.emptyV(mi)
			if fi.oneofIdx >= 0 {
				v.L[i] = &V{K: 's', P: c.g.msg(c.fieldMsg(fi.fd), 2, 3+c.r.intn(5))}
			} else {
				v.L[i] = c.g.field(fi, 3)
			}
			c.one(mi, v, "required-onehot", maxVar)
		}
	}
}

func (c *libCtx) initialized(mi *msgInfo, v, other *V) {
	o, si := c.o, c.si
	id := c.id(mi)
	g := c.G(mi, v)
	d := si.toDyn(mi, v)
	refErr := proto.CheckInitialized(d)
	init := refErr == nil
	o.count("initialized_" + tf(init))
	if !init {
		o.nontrivial(si.id + "/" + fmt.Sprint(mi.idx) + "/uninitialized/" + shapeKey(v))
		// through which positions is the missing required field reached (input distribution)
		for i, fi := range mi.fields {
			if fi.fd.Message() == nil && !(fi.fd.IsMap() && fi.fd.MapValue().Message() != nil) {
				continue
			}
			w := si.emptyV(mi)
			w.L[i] = v.L[i]
			if proto.CheckInitialized(si.toDyn(mi, w)) != nil {
				pos := "singular"
				switch {
				case fi.fd.IsMap():
					pos = "mapvalue"
				case fi.fd.IsList():
					pos = "repeated"
				case fi.oneofIdx >= 0:
					pos = "oneof"
				}
				impl := "generated"
				if cm := c.fieldMsg(fi.fd); cm != nil && !cm.pulsar {
					impl = "proto2"
				}
				o.count("uninitialized_via_" + pos + "_" + impl)
			}
		}
	}
	// the generated fast path, when there is one, called the way the library calls it
	if meth := g.ProtoReflect().ProtoMethods(); meth != nil && meth.CheckInitialized != nil {
		var e error
		pan := catchPanic(func() { _, e = meth.CheckInitialized(protoiface.CheckInitializedInput{Message: g.ProtoReflect()}) })
		o.count("checkinit_fastpath")
		o.withKey("lib/"+id+"/checkinitialized").prop("C10", pan == nil && (e == nil) == init,
			fmt.Sprintf("ProtoMethods().CheckInitialized of %s: %v (panic %v), proto.CheckInitialized on the reference message holding the same value: %v; value %s", id, e, pan, refErr, v))
	}
	// binary Marshal in four option sets
	key := "lib/" + id + "/marshal-initialized"
	var partialEnc []byte
	for _, mo := range []proto.MarshalOptions{{}, {AllowPartial: true}, {Deterministic: true}, {Deterministic: true, AllowPartial: true}} {
		name := fmt.Sprintf("proto.MarshalOptions{Deterministic:%v AllowPartial:%v}.Marshal", mo.Deterministic, mo.AllowPartial)
		var bg []byte
		var eg error
		pan := catchPanic(func() { bg, eg = mo.Marshal(g) })
		bd, ed := mo.Marshal(d)
		o.count("marshal_partial=" + tf(mo.AllowPartial) + "_" + map[bool]string{true: "ok", false: "rejects"}[ed == nil])
		if pan != nil || (eg == nil) != (ed == nil) {
			o.withKey(key).prop("C10", false, fmt.Sprintf("%s of %s: generated err=%v panic=%v, reference (initialised=%v) err=%v; value %s", name, id, eg, pan, init, ed, v))
			continue
		}
		if ed != nil {
			o.withKey(key).prop("C10", true, "")
			continue
		}
		if mo.AllowPartial && mo.Deterministic {
			partialEnc = bd
		}
		pg, pd := dynamicpb.NewMessage(mi.md), dynamicpb.NewMessage(mi.md)
		e1 := proto.UnmarshalOptions{AllowPartial: true}.Unmarshal(bg, pg)
		e2 := proto.UnmarshalOptions{AllowPartial: true}.Unmarshal(bd, pd)
		o.withKey(key).prop("C10", e1 == nil && e2 == nil && proto.Equal(pg, pd), fmt.Sprintf("%s of %s: the generated message's bytes %s denote %s (%v), the reference's bytes %s denote %s (%v); value %s", name, id, hx(bg), c.normD(mi, pg), e1, hx(bd), c.normD(mi, pd), e2, v))
	}
	o.withKey(key).prop("C10", c.rawG(mi, g) == sortedStr(v), fmt.Sprintf("Marshal / CheckInitialized modified the message %s: %s", id, v))
	// binary Unmarshal of the (possibly partial) reference encoding into a fresh message
	if partialEnc != nil {
		key := "lib/" + id + "/unmarshal-initialized"
		for _, uo := range []proto.UnmarshalOptions{{}, {AllowPartial: true}, {DiscardUnknown: true}, {DiscardUnknown: true, AllowPartial: true}} {
			key := key
			name := fmt.Sprintf("proto.UnmarshalOptions{DiscardUnknown:%v AllowPartial:%v}.Unmarshal", uo.DiscardUnknown, uo.AllowPartial)
			tg, td := c.newG(mi), dynamicpb.NewMessage(mi.md)
			var eg error
			pan := catchPanic(func() { eg = uo.Unmarshal(partialEnc, tg) })
			ed := uo.Unmarshal(partialEnc, td)
			o.count("unmarshal_partial=" + tf(uo.AllowPartial) + "_discard=" + tf(uo.DiscardUnknown) + "_" + map[bool]string{true: "ok", false: "rejects"}[ed == nil])
			if pan == nil && eg == nil && ed != nil && uo.DiscardUnknown && !uo.AllowPartial && !init {
				// D19 (fixed in /repo ca6179d): the generated Unmarshal echoed its input flags into UnmarshalOutput.Flags; the input
				// bit UnmarshalDiscardUnknown is the output bit UnmarshalInitialized, so the library skipped its required-fields check
				key = "lib/unmarshal-discardunknown-skips-required-check/" + id
			}
			if pan != nil || (eg == nil) != (ed == nil) {
				o.withKey(key).prop("C10", false, fmt.Sprintf("%s of %s into a fresh %s: generated err=%v panic=%v, reference err=%v; value encoded %s", name, hx(partialEnc), id, eg, pan, ed, v))
				continue
			}
			if ed != nil {
				o.withKey(key).prop("C10", true, "")
				continue
			}
			a, b := c.normG(mi, tg), c.normD(mi, td.ProtoReflect())
			o.withKey(key).prop("C10", a == b, fmt.Sprintf("%s of %s into a fresh %s: generated gives %s, reference gives %s; value encoded %s", name, hx(partialEnc), id, a, b, v))
		}
	}
	if init {
		return
	}
	// JSON / text of an uninitialised value: textual() saw both sides reject it; with AllowPartial both must give a text,
	// and parsing the reference's text must fail without AllowPartial and succeed with it, on both sides
	for _, pt := range partialTexts {
		key := "lib/" + id + "/" + pt.name
		var tg []byte
		var eg error
		pan := catchPanic(func() { tg, eg = pt.marshalPartial(g) })
		td, ed := pt.marshalPartial(d)
		if pan != nil || (eg == nil) != (ed == nil) {
			o.withKey(key).prop("C10", false, fmt.Sprintf("%s Marshal with AllowPartial of %s: generated err=%v panic=%v, reference err=%v; value %s", pt.name, id, eg, pan, ed, v))
			continue
		}
		if ed != nil {
			o.count(pt.name + "_partial_both_reject")
			continue
		}
		pg, pd := dynamicpb.NewMessage(mi.md), dynamicpb.NewMessage(mi.md)
		e1, e2 := pt.unmarshP(tg, pg), pt.unmarshP(td, pd)
		if e1 != nil && e2 != nil {
			o.count(pt.name + "_partial_reparse_both_reject")
			continue
		}
		o.count(pt.name + "_partial_marshal_ok")
		o.withKey(key).prop("C10", e1 == nil && e2 == nil && proto.Equal(pg, pd), fmt.Sprintf("%s Marshal with AllowPartial of %s: the generated message's text %q denotes %s (%v), the reference's text %q denotes %s (%v); value %s", pt.name, id, tg, c.normD(mi, pg), e1, td, c.normD(mi, pd), e2, v))
		for k, um := range []func([]byte, proto.Message) error{pt.unmarshal, pt.unmarshP} {
			tgt, ref := c.newG(mi), dynamicpb.NewMessage(mi.md)
			var e3 error
			pan := catchPanic(func() { e3 = um(td, tgt) })
			e4 := um(td, ref)
			o.count(pt.name + "_unmarshal_partial=" + tf(k == 1) + "_" + map[bool]string{true: "ok", false: "rejects"}[e4 == nil])
			if pan != nil || (e3 == nil) != (e4 == nil) {
				o.withKey(key).prop("C10", false, fmt.Sprintf("%s Unmarshal (AllowPartial=%v) of %q into a fresh %s: generated err=%v panic=%v, reference err=%v", pt.name, k == 1, td, id, e3, pan, e4))
				continue
			}
			if e4 != nil {
				o.withKey(key).prop("C10", true, "")
				continue
			}
			a, b := c.normG(mi, tgt), c.normD(mi, ref.ProtoReflect())
			o.withKey(key).prop("C10", a == b, fmt.Sprintf("%s Unmarshal (AllowPartial=%v) of %q into a fresh %s gives %s, the reference message gives %s", pt.name, k == 1, td, id, a, b))
		}
	}
}

// ---- protojson / prototext --------------------------------------------------------------------------
type textCodec struct {
	name      string
	marshal   func(proto.Message) ([]byte, error)
	unmarshal func([]byte, proto.Message) error
}

var textCodecs = []textCodec{
	{"protojson", protojson.Marshal, protojson.Unmarshal},
	{"protojson-emitunpopulated", protojson.MarshalOptions{EmitUnpopulated: true, UseProtoNames: true, UseEnumNumbers: true}.Marshal, protojson.Unmarshal},
	{"prototext", prototext.Marshal, prototext.Unmarshal},
	{"prototext-multiline", prototext.MarshalOptions{Multiline: true, EmitASCII: true}.Marshal, prototext.Unmarshal},
}

// lossyNorm: what a JSON / text round trip can keep of a value: unknown fields dropped at every
// depth, one NaN
func lossyNorm(v *V) *V {
	if v == nil {
		return nil
	}
	c := &V{K: v.K, I: v.I, U: v.U, Uns: v.Uns, B: v.B}
	if v.K == 'x' {
		if (v.U>>32 == 0 && uint32(v.U)&0x7f800000 == 0x7f800000 && uint32(v.U)&0x007fffff != 0) ||
			(v.U&0x7ff0000000000000 == 0x7ff0000000000000 && v.U&0x000fffffffffffff != 0) {
			c.U = 0x7ff8000000000001
		}
	}
	for _, e := range v.L {
		c.L = append(c.L, lossyNorm(e))
	}
	c.P = lossyNorm(v.P)
	return c
}

func (c *libCtx) textual(mi *msgInfo, v, other *V, valid bool) {
	o, si := c.o, c.si
	g := c.G(mi, v)
	d := si.toDyn(mi, v)
	for ci, tc := range textCodecs {
		if !c.cfg.thorough() && ci%2 == 1 && c.r.intn(3) != 0 {
			continue
		}
		key := "lib/" + c.id(mi) + "/" + strings.SplitN(tc.name, "-", 2)[0]
		var tg, td []byte
		var eg, ed error
		pan := catchPanic(func() { tg, eg = tc.marshal(g) })
		td, ed = tc.marshal(d)
		if pan != nil || (eg == nil) != (ed == nil) {
			o.withKey(key).prop("C10", false, fmt.Sprintf("%s Marshal of %s: generated err=%v panic=%v, reference err=%v; value %s", tc.name, c.id(mi), eg, pan, ed, v))
			continue
		}
		o.withKey(key).prop("C10", c.rawG(mi, g) == sortedStr(v), fmt.Sprintf("%s Marshal modified the message %s: %s", tc.name, c.id(mi), v))
		if eg != nil {
			o.count(tc.name + "_both_reject")
			o.withKey(key).prop("C10", true, "")
			continue
		}
		if !valid {
			o.count(tc.name + "_invalid_utf8_accepted_by_both")
		}
		// both texts must denote the same message
		pg, pd := dynamicpb.NewMessage(mi.md), dynamicpb.NewMessage(mi.md)
		e1, e2 := tc.unmarshal(tg, pg), tc.unmarshal(td, pd)
		if e1 != nil || e2 != nil {
			if e1 != nil && e2 != nil {
				o.count(tc.name + "_reparse_both_reject")
				continue
			}
			o.withKey(key).prop("C10", false, fmt.Sprintf("%s Marshal of %s: re-parsing the generated message's text: %v, the reference's text: %v; value %s; texts %q vs %q", tc.name, c.id(mi), e1, e2, v, tg, td))
			continue
		}
		o.count(tc.name + "_marshal_ok")
		o.withKey(key).prop("C10", proto.Equal(pg, pd), fmt.Sprintf("%s Marshal of %s: the text of the generated message denotes %s, the reference's text %s; value %s; texts %q vs %q", tc.name, c.id(mi), c.normD(mi, pg), c.normD(mi, pd), v, tg, td))
		// the reference's text parsed INTO a fresh generated message, and into a used one
		want := c.normD(mi, pd)
		for k, target := range []proto.Message{c.newG(mi), c.G(mi, other)} {
			var e3 error
			pan := catchPanic(func() { e3 = tc.unmarshal(td, target) })
			got := "-"
			if pan == nil && e3 == nil {
				got = c.normG(mi, target)
			}
			o.withKey(key).prop("C10", pan == nil && e3 == nil && got == want, fmt.Sprintf("%s Unmarshal into a %s %s: err=%v panic=%v gives %s, the reference message gives %s; text %q", tc.name, []string{"fresh", "non-empty"}[k], c.id(mi), e3, pan, got, want, td))
		}
		o.nontrivial(si.id + "/" + fmt.Sprint(mi.idx) + "/" + tc.name + "/" + shapeKey(v))
		if want == lossyNorm(si.normV(mi, v)).String() || lossyNorm(si.fromPR(mi, pd)).String() == lossyNorm(si.normV(mi, v)).String() {
			o.count(tc.name + "_roundtrip_exact")
		} else {
			o.count(tc.name + "_roundtrip_lossy_in_reference_too")
		}
	}
}

// ---- well-known types: make some of the values acceptable to the JSON mapping ----------------------
func (c *libCtx) fixWKT(mi *msgInfo, v *V, depth int) {
	if v == nil || v.K != 'm' {
		return
	}
	r := c.r
	switch mi.md.FullName() {
	case "google.protobuf.Any":
		if r.intn(4) != 0 && depth > 0 {
			var cands []*msgInfo
			for _, m := range c.si.msgs {
				if m.md.FullName() != "google.protobuf.Any" {
					cands = append(cands, m)
				}
			}
			t := cands[r.intn(len(cands))]
			sub := *c.g
			sub.badUTF8 = false
			inner := sub.msg(t, 1, 4)
			c.fixWKT(t, inner, depth-1)
			b, err := proto.MarshalOptions{Deterministic: true}.Marshal(c.si.toDyn(t, inner))
			if err == nil {
				v.L[0] = vBytes([]byte("type.googleapis.com/" + string(t.md.FullName())))
				v.L[1] = vBytes(b)
				if len(b) == 0 {
					v.L[1] = vNil
				}
				v.Unk = nil
			}
		}
		return
	case "google.protobuf.Timestamp":
		if r.intn(4) != 0 {
			v.L[0] = vInt(int64(r.u64()%(253402300799+62135596800+1)) - 62135596800)
			v.L[1] = vInt(int64(r.intn(1000000000)))
			if r.intn(3) == 0 {
				v.L[1] = vInt(0)
			}
		}
		return
	case "google.protobuf.Duration":
		if r.intn(4) != 0 {
			s := int64(r.u64()%(2*315576000000+1)) - 315576000000
			n := int64(r.intn(1000000000))
			if s < 0 {
				n = -n
			}
			if r.intn(3) == 0 {
				s = 0
			}
			v.L[0], v.L[1] = vInt(s), vInt(n)
		}
		return
	case "google.protobuf.FieldMask":
		if r.intn(4) != 0 && v.L[0].K == 'l' {
			names := []string{"a", "foo.bar", "x_y", "leaf.b_c.d"}
			for i := range v.L[0].L {
				v.L[0].L[i] = vBytes([]byte(names[r.intn(len(names))]))
			}
		}
		return
	}
	for i, fi := range mi.fields {
		var cmi *msgInfo
		if fi.fd.IsMap() {
			if fi.fd.MapValue().Message() == nil {
				continue
			}
			cmi = c.si.byName[fi.fd.MapValue().Message().FullName()]
		} else if fi.fd.Kind() == protoreflect.MessageKind {
			cmi = c.cmi(fi.fd)
		} else {
			continue
		}
		sv := v.L[i]
		switch {
		case fi.fd.IsMap():
			for j := 1; j < len(sv.L); j += 2 {
				c.fixWKT(cmi, sv.L[j], depth)
			}
		case fi.fd.IsList():
			for _, e := range sv.L {
				c.fixWKT(cmi, e, depth)
			}
		case sv.K == 's':
			c.fixWKT(cmi, sv.P, depth)
		default:
			c.fixWKT(cmi, sv, depth)
		}
	}
}

func (c *libCtx) hasWKT(mi *msgInfo, seen map[*msgInfo]bool) bool {
	if seen[mi] {
		return false
	}
	seen[mi] = true
	if strings.HasPrefix(string(mi.md.FullName()), "google.protobuf.") && mi.md.ParentFile().Path() != "google/protobuf/descriptor.proto" {
		return true
	}
	for _, fi := range mi.fields {
		var m protoreflect.MessageDescriptor
		if fi.fd.IsMap() {
			m = fi.fd.MapValue().Message()
		} else {
			m = fi.fd.Message()
		}
		if m != nil && c.hasWKT(c.si.byName[m.FullName()], seen) {
			return true
		}
	}
	return false
}

// ---- one base value: every algorithm ------------------------------------------------------------------
func (c *libCtx) one(mi *msgInfo, v *V, class string, maxVariants int) {
	o, si := c.o, c.si
	o.count("base_" + class)
	valid := stringsValid(si, mi, v)
	// harness self-check: the struct holds what was asked
	o.prop("C10", c.rawG(mi, c.G(mi, v)) == sortedStr(v), "harness self-check: building the struct and reading it back differ: "+v.String())

	// (1) equal values built through different histories
	same := c.sameValueAlt(mi, v)
	o.prop("C10", si.normV(mi, same).String() == si.normV(mi, v).String(), "harness self-check: sameValueAlt changed the value "+v.String()+" / "+same.String())
	c.equalPair(mi, v, cloneV(v), "identical")
	c.equalPair(mi, v, same, "other-history")
	if b, err := (proto.MarshalOptions{AllowPartial: true}).Marshal(c.G(mi, v)); err == nil {
		q := c.newG(mi)
		if (proto.UnmarshalOptions{AllowPartial: true}).Unmarshal(b, q) == nil {
			c.equalPair(mi, v, si.fromGo(mi, reflect.ValueOf(q)), "decoded")
		}
	}
	var cl proto.Message
	if catchPanic(func() { cl = proto.Clone(c.G(mi, v)) }) == nil {
		c.equalPair(mi, v, si.fromGo(mi, reflect.ValueOf(cl)), "cloned")
	}
	// (2) one-thing-different variants
	vs := c.variantsAt(mi, v, 2, -1)
	if maxVariants > 0 && len(vs) > maxVariants {
		for i := 0; i < maxVariants; i++ {
			j := i + c.r.intn(len(vs)-i)
			vs[i], vs[j] = vs[j], vs[i]
		}
		vs = vs[:maxVariants]
	}
	for _, a := range vs {
		c.equalPair(mi, v, a.v, a.name)
	}
	// two variants of the same value against each other (e.g. unknown records in two orders)
	for k := 0; k+1 < len(vs) && k < 4; k += 2 {
		c.equalPair(mi, vs[k].v, vs[k+1].v, "variant-vs-variant")
	}
	u1, u2 := genUnknownFor(c.r, mi), genUnknownFor(c.r, mi)
	wa, wb := cloneV(v), cloneV(v)
	wa.Unk = append(append(wa.Unk, u1...), u2...)
	wb.Unk = append(append(wb.Unk, u2...), u1...)
	c.equalPair(mi, wa, wb, "unknown-two-orders")
	// (3) an unrelated value
	other := c.g.msg(mi, 2, 2+c.r.intn(7))
	if c.r.intn(3) == 0 {
		other.Unk = append(other.Unk, genUnknownFor(c.r, mi)...)
	}
	c.equalPair(mi, v, other, "unrelated")

	c.clone(mi, v)
	c.merge(mi, v, other, "unrelated")
	c.merge(mi, other, v, "unrelated-rev")
	c.merge(mi, v, cloneV(v), "self-copy")
	c.merge(mi, si.emptyV(mi), v, "into-empty")
	c.merge(mi, v, si.emptyV(mi), "from-empty")
	for k := 0; k < 3 && len(vs) > 0; k++ {
		a := vs[c.r.intn(len(vs))]
		c.merge(mi, v, a.v, "variant:"+a.name[strings.IndexByte(a.name, ':')+1:])
	}
	c.resetAndInit(mi, v)
	c.textual(mi, v, other, valid)
	if valid {
		c.initialized(mi, v, other)
	}
}

func (c *libCtx) nilTop(mi *msgInfo) {
	// typed nil pointer = invalid message (documented in proto.Equal / proto.Clone)
	o := c.o
	key := "lib/" + c.id(mi) + "/nil"
	nilG := reflect.Zero(reflect.PtrTo(mi.goType)).Interface().(proto.Message)
	nilG2 := reflect.Zero(reflect.PtrTo(mi.goType)).Interface().(proto.Message)
	var a, b, c1 bool
	var cl proto.Message
	pan := catchPanic(func() {
		a = proto.Equal(nilG, c.newG(mi))
		b = proto.Equal(c.newG(mi), nilG)
		c1 = proto.Equal(nilG, nilG2)
		cl = proto.Clone(nilG)
	})
	okClone := pan == nil && cl != nil && !cl.ProtoReflect().IsValid() && reflect.TypeOf(cl) == reflect.TypeOf(nilG)
	o.withKey(key).prop("C10", pan == nil && !a && !b && c1 && okClone, fmt.Sprintf("typed nil %s: Equal(nil, empty)=%v Equal(empty, nil)=%v (want false: an invalid message is not equal to a valid one), Equal(nil, nil)=%v (want true), Clone(nil) invalid and of the same type=%v, panic=%v", c.id(mi), a, b, c1, okClone, pan))
}

func engineLib(cfg config, o *out) {
	schemas := loadSchemasSel(true)
	o.hist["programs"] = len(schemas)
	for _, si := range schemas {
		c := &libCtx{o: o, si: si, r: newRng(cfg.seed, "lib/"+si.id), cfg: cfg, noModel: modelFreeSets[si.id]}
		if !c.noModel {
			o.raw("SCHEMA\t" + si.id + "\t=\t" + si.sexp())
		}
		c.g = &vgen{r: c.r, si: si, nilElems: true}
		for _, mi := range si.roots() {
			wkt := c.hasWKT(mi, map[*msgInfo]bool{})
			n, maxVar := 30, 40
			if si.id == "vtest3" || si.id == "vtestpb" {
				n, maxVar = 12, 24 // renamed copies of the checked-in schemas
			}
			if cfg.thorough() {
				n, maxVar = 300, 0
				if si.id == "vtest3" || si.id == "vtestpb" {
					n = 120
				}
			}
			if wkt {
				n *= 3
			}
			c.nilTop(mi)
			c.one(mi, si.emptyV(mi), "empty", maxVar)
			if c.hasRequired(mi, map[*msgInfo]bool{}) {
				c.requiredOneHots(mi, n/6, maxVar)
			}
			for k := 0; k < n; k++ {
				c.g.badUTF8 = k%7 == 6
				v := c.g.msg(mi, 3, 2+c.r.intn(7))
				if k%3 == 0 {
					for j := c.r.intn(3); j >= 0; j-- {
						v.Unk = append(v.Unk, genUnknownFor(c.r, mi)...)
					}
				}
				class := "random"
				if wkt && k%4 != 3 {
					c.fixWKT(mi, v, 2)
					class = "random-wkt-fixed"
				}
				if c.g.badUTF8 && !stringsValid(si, mi, v) {
					class = "invalid-utf8"
				}
				c.one(mi, v, class, maxVar)
				c.g.badUTF8 = false
			}
		}
	}
}
