package main

import (
	"fmt"
	"runtime"
	"time"

	"github.com/cosmos/cosmos-proto/testpb"
	vm "github.com/cosmos/cosmos-proto/verifh/gen/vm"
	"google.golang.org/protobuf/proto"
	"google.golang.org/protobuf/types/dynamicpb"
)

// n records `0a 04 08 k 12 L_i` with L_i = 6*(records that follow): each map value's payload is all later records
func expo(n int) []byte {
	var b []byte
	for i := 0; i < n; i++ {
		b = append(b, 0x0a, 0x04, 0x08, byte(i), 0x12, byte(6*(n-1-i)))
	}
	return b
}

func count(m *vm.Rm) int {
	c := 1
	for _, v := range m.M {
		c += count(v)
	}
	return c
}

func main() {
	for _, n := range []int{4, 8, 12, 16, 18, 20} {
		b := expo(n)
		var ms0, ms1 runtime.MemStats
		runtime.ReadMemStats(&ms0)
		t0 := time.Now()
		m := &vm.Rm{}
		err := proto.Unmarshal(b, m)
		dt := time.Since(t0)
		runtime.ReadMemStats(&ms1)
		d := dynamicpb.NewMessage(m.ProtoReflect().Descriptor())
		rerr := proto.Unmarshal(b, d)
		fmt.Printf("n=%d bytes=%d err=%v messages=%d alloc=%d KB time=%v | reference err=%v\n", n, len(b), err, count(m), (ms1.TotalAlloc-ms0.TotalAlloc)/1024, dt, rerr)
	}
	// quadratic on the checked-in testpb.A: map<string,B> MAP = 18; records 92 01 03 0a <2-byte varint L>
	for _, n := range []int{100, 1000, 2000} {
		var b []byte
		for i := 0; i < n; i++ {
			L := 6 * (n - 1 - i)
			b = append(b, 0x92, 0x01, 0x03, 0x0a, byte(L&0x7f|0x80), byte(L>>7))
		}
		var ms0, ms1 runtime.MemStats
		runtime.ReadMemStats(&ms0)
		a := &testpb.A{}
		err := proto.Unmarshal(b, a)
		runtime.ReadMemStats(&ms1)
		tot := 0
		for k := range a.MAP {
			tot += len(k)
		}
		fmt.Printf("testpb.A n=%d bytes=%d err=%v entries=%d key bytes held=%d alloc=%d KB\n", n, len(b), err, len(a.MAP), tot, (ms1.TotalAlloc-ms0.TotalAlloc)/1024)
	}
}
