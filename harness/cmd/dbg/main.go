package main

import (
	"fmt"

	"github.com/cosmos/cosmos-proto/testpb"
	"google.golang.org/protobuf/proto"
	"google.golang.org/protobuf/reflect/protoreflect"
	"google.golang.org/protobuf/reflect/protoregistry"
	"google.golang.org/protobuf/runtime/protoimpl"
	"google.golang.org/protobuf/types/dynamicpb"
)

func try(name string, f func()) {
	defer func() {
		if e := recover(); e != nil {
			fmt.Println(name, "=> PANIC:", e)
		}
	}()
	f()
}

func main() {
	a := &testpb.A{}
	md := a.ProtoReflect().Descriptor()
	fdMsg := md.Fields().ByName("MESSAGE")
	fdOB := md.Fields().ByName("ONEOF_B")
	mt, _ := protoregistry.GlobalTypes.FindMessageByName(md.FullName())
	info := mt.(*protoimpl.MessageInfo)
	slow := func() protoreflect.Message { return info.MessageOf(&testpb.A{}) }
	dyn := func() protoreflect.Message { return dynamicpb.NewMessage(md) }
	fast := func() protoreflect.Message { return (&testpb.A{}).ProtoReflect() }
	for _, im := range []struct {
		n string
		f func() protoreflect.Message
	}{{"fast", fast}, {"slow", slow}, {"dyn", dyn}} {
		m := im.f()
		inv := m.Get(fdMsg) // invalid read-only message
		try(im.n+" Set(MESSAGE, invalid)", func() { m.Set(fdMsg, inv); fmt.Println(im.n, "Set(MESSAGE, invalid) ok; Has =", m.Has(fdMsg)) })
		m2 := im.f()
		try(im.n+" Set(ONEOF_B, invalid)", func() {
			m2.Set(fdOB, m2.Get(fdOB))
			fmt.Println(im.n, "Set(ONEOF_B, invalid) ok; Has =", m2.Has(fdOB), "which =", m2.WhichOneof(md.Oneofs().Get(0)))
		})
	}
	try("fast nil GetUnknown", func() { fmt.Println("fast nil GetUnknown:", (*testpb.A)(nil).ProtoReflect().GetUnknown()) })
	try("slow nil GetUnknown", func() { fmt.Println("slow nil GetUnknown:", info.MessageOf((*testpb.A)(nil)).GetUnknown()) })
	try("fast Equal nil elem", func() {
		x := &testpb.A{LIST: []*testpb.B{nil}}
		fmt.Println("Equal:", proto.Equal(x, x), "Clone:", proto.Clone(x))
	})
	try("fast Clone nil map value", func() {
		x := &testpb.A{MAP: map[string]*testpb.B{"k": nil}}
		fmt.Println("Clone:", proto.Clone(x), proto.Equal(x, proto.Clone(x)))
	})
}
