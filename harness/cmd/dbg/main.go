package main

import (
	"fmt"
	"runtime/debug"

	"github.com/cosmos/cosmos-proto/testpb"
	"google.golang.org/protobuf/proto"
)

func main() {
	defer func() {
		if e := recover(); e != nil {
			fmt.Println("PANIC", e)
			fmt.Println(string(debug.Stack()))
		}
	}()
	a := &testpb.A{MAP: map[string]*testpb.B{"x": nil}}
	b, err := proto.Marshal(a)
	fmt.Println(b, err)
}
