module github.com/cosmos/cosmos-proto/verifh

go 1.18

require (
	github.com/cosmos/cosmos-proto v0.0.0
	google.golang.org/protobuf v1.34.0
	pgregory.net/rapid v1.1.0
)

replace github.com/cosmos/cosmos-proto => /repo
