module github.com/cosmos/cosmos-proto/verifh

go 1.18

require (
	github.com/cosmos/cosmos-proto v0.0.0
	google.golang.org/protobuf v1.34.0
	pgregory.net/rapid v1.1.0
)

require (
	github.com/google/go-cmp v0.6.0 // indirect
	gotest.tools/v3 v3.5.1 // indirect
)

replace github.com/cosmos/cosmos-proto => /repo
