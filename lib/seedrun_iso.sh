#!/bin/bash
# usage: seedrun_iso.sh <seed id> <property>...
# Runs checks against a seeded change WITHOUT touching /repo: a scratch worktree of /repo with the patch applied and a scratch
# copy of /verif whose harness module points at it (used while other work is reading /repo; the official way — apply to /repo,
# run, revert — is lib/seedrun.sh). Everything is removed afterwards.
id=$1; shift
SRC=$(cd "$(dirname "$0")/.." && pwd)   # the framework copy this script belongs to (/verif, or a private clone of it)
W=/tmp/iso_${id}_$$
rm -rf $W; mkdir -p $W
git -C /repo worktree add -q --detach $W/repo ${SEEDREV:-HEAD} || exit 2
git -C $W/repo apply $SRC/seeded/$id/patch.diff || { echo "patch does not apply"; git -C /repo worktree remove --force $W/repo; exit 2; }
rsync -a --exclude .git --exclude '_build/cases' --exclude '_build/gencheck' --exclude replays $SRC/ $W/verif/
sed -i "s|=> /repo|=> $W/repo|" $W/verif/harness/go.mod
cd $W/verif
for p in "$@"; do VERIF_REPO=$W/repo ./check $p --tier ${TIER:-quick} 2>&1 | grep -E "^(VIOLATION|KNOWN|PASS|FAIL|  failing input|  broken|   MISMATCH)" | cut -c1-330 | head -7; done
cd /; git -C /repo worktree remove --force $W/repo; rm -rf $W
