#!/bin/bash
# usage: seedverify.sh <id> <go test args to run the demo, e.g. "-run TestDemo ./runtime/">
# Confirms a seeded change in /tmp/seedwt/<id>: suite passes with it, demo fails with it and passes without.
set -u
export GOFLAGS=-mod=mod GOPROXY=off GOSUMDB=off GOTOOLCHAIN=local
id=$1; shift
wt=${SEEDWT:-/tmp/seedwt}/$id; out=${SEEDOUT:-/tmp/seedout}/$id
cd $wt || exit 2
demo_files=$(git status --porcelain | grep '^??' | awk '{print $2}')
echo "untracked (demo) files: $demo_files"
# 1. suite with change, demo moved aside
mkdir -p /tmp/seedaside/$id; rm -rf /tmp/seedaside/$id/*
for f in $demo_files; do mkdir -p /tmp/seedaside/$id/$(dirname $f); mv $f /tmp/seedaside/$id/$f; done
git diff > /tmp/seedaside/$id/actual.diff
if ! diff -q <(git diff) $out/patch.diff >/dev/null; then echo "NOTE: worktree diff differs from patch.diff (using worktree diff)"; fi
go build ./... && go test -vet=off -count=1 ./... 2>&1 | grep -v "no test files" | tail -6
suite=$?
for f in $demo_files; do mkdir -p $(dirname $f); cp -r /tmp/seedaside/$id/$f $f; done
# 2. demo with change
echo "--- demo WITH change (expect FAIL): go test $*"
go test -vet=off -count=1 "$@" 2>&1 | tail -4
# 3. demo without change
git apply -R /tmp/seedaside/$id/actual.diff
echo "--- demo WITHOUT change (expect PASS)"
go test -vet=off -count=1 "$@" 2>&1 | tail -4
git apply /tmp/seedaside/$id/actual.diff
