"""Per-property wiring: which engines produce the cases, what the evidence says.
One JSON file per property under lib/props.d/ (keys: engines, rule, level_text, level_note, trusted, assumptions, optional level,
technique, design_ref, allowed_axioms, build_is_property, all_propfails). An engine entry is a name or [name, extra args...]."""
import glob, json, os

PROPS = {}
for _p in sorted(glob.glob(os.path.join(os.path.dirname(os.path.abspath(__file__)), "props.d", "*.json"))):
    _d = json.load(open(_p))
    _d["engines"] = [e if isinstance(e, str) else tuple(e) for e in _d["engines"]]
    PROPS[os.path.basename(_p)[:-5]] = _d

# properties deliberately not claimed: id -> reason (everything else not in PROPS is reported as "not built yet")
NOT_APPLICABLE = {}
