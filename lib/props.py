"""Per-property wiring: which engines produce the cases, what the evidence says."""
PROPS = {
    "C15": {
        "engines": ["rt"],
        "level_text": "Theorems for all uint64 values, all buffers/offsets and all byte strings about a Gallina model of runtime.Sov/Soz/EncodeVarint/Skip (sizes equal protowire's formula and the writer's length; the writer stores exactly the minimal varint ending at the offset, touches nothing else, panics exactly when room is missing; Skip never panics, terminates, progresses, returns the exact length of any well-formed record incl. nested groups); the model is run against the Go functions and protowire on ~125k inputs per quick run.",
        "level_note": "Trusted: Coq kernel, extraction (ExtrOcamlBasic), OCaml driver, Go runner; the model is hand-written and tied to runtime.go by differential testing only. Go slices assumed shorter than 2^63 bytes.",
        "rule": "Sov/Soz: every bit-length boundary +-1, 7k-bit boundaries, sign-extended int32 patterns, random 64-bit; EncodeVarint: those values x buffer lengths x every offset incl. the panicking ones; Skip: all byte strings of length <=2, all strings of length 3..4 over a 13-byte alphabet, random well-formed records (nested groups) + truncations, bit flips, adversarial lengths, overlong varints. distinct_nontrivial counts distinct (function, bit-length/outcome class, 12-byte input prefix) keys.",
        "trusted": ["google.golang.org/protobuf/encoding/protowire v1.34.0 as the reference for the implementation-side predicate"],
        "assumptions": ["Go's bits.Len64, integer shifts and slice indexing behave as transcribed in Model/Runtime.v"],
    },
    "C17": {
        "engines": ["time"],
        "rule": "Add: full product of timestamp seconds (range extremes, 0, +-1) x nanos boundaries x duration seconds x duration nanos of both signs (every carry/borrow boundary), int64 extremes for the overflow clause, then random valid pairs biased to nanos sums near 0 and 1e9; AddStd and Compare on the same. distinct_nontrivial counts distinct (class, outcome, sign of nanos-sum - 1e9, sign of nanos-sum, sign of duration) keys.",
        "level_text": "Theorems for all valid timestamps/durations (and, for the overflow clause, all int64 seconds) about a Gallina model of timepb.Add/AddStd/Compare with Go's int64/int32 wrap-around written out: Add is exact, normalised and never panics on valid inputs, equals AddStd on every time.Duration, panics whenever the carried seconds sum leaves int64; Compare is the chronological total order. The model is run against the Go functions and a math/big oracle on ~50k cases per quick run.",
        "level_note": "Trusted: Coq kernel, extraction, OCaml driver, Go runner; time.Time arithmetic inside AddStd is modelled as exact integer arithmetic (validated by the run, not proved); 'returns a fresh value' is checked on the implementation only (pointer inequality, arguments unchanged).",
        "trusted": ["math/big and timestamppb/durationpb CheckValid as the implementation-side oracle"],
        "assumptions": ["time.Time.Add is exact for instants reachable from a valid Timestamp by an int64 nanosecond offset"],
    },
}

NOT_APPLICABLE = {}
