"""Per-property wiring: which engines produce the cases, what the evidence says."""
PROPS = {
    "C15": {
        "engines": ["rt"],
        "level_text": "Theorems for all uint64 values, all buffers/offsets and all byte strings about a Gallina model of runtime.Sov/Soz/EncodeVarint/Skip (sizes equal protowire's formula and the writer's length; the writer stores exactly the minimal varint ending at the offset, touches nothing else, panics exactly when room is missing; Skip never panics, terminates, progresses, returns the exact length of any well-formed record incl. nested groups); the model is run against the Go functions and protowire on ~125k inputs per quick run.",
        "level_note": "Trusted: Coq kernel, extraction (ExtrOcamlBasic), OCaml driver, Go runner; the model is hand-written and tied to runtime.go by differential testing only. Go slices assumed shorter than 2^63 bytes.",
        "rule": "Sov/Soz: every bit-length boundary +-1, 7k-bit boundaries, sign-extended int32 patterns, random 64-bit; EncodeVarint: those values x buffer lengths x every offset incl. the panicking ones; Skip: all byte strings of length <=2, all strings of length 3..4 over a 13-byte alphabet, random well-formed records (nested groups) + truncations, bit flips, adversarial lengths, overlong varints. distinct_nontrivial counts distinct (function, bit-length/outcome class, 12-byte input prefix) keys.",
        "trusted": ["google.golang.org/protobuf/encoding/protowire v1.34.0 as the reference for the implementation-side predicate"],
        "assumptions": ["Go's bits.Len64, integer shifts and slice indexing behave as transcribed in Model/Runtime.v"],
    },
}

NOT_APPLICABLE = {}
