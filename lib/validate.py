#!/usr/bin/env python3
"""Validates MANIFEST.json and every evidence/*.json against the schemas under /root/.vp (run with python3-vt)."""
import glob, json, sys
import jsonschema
ok = True
m = json.load(open('/verif/MANIFEST.json'))
try:
    jsonschema.validate(m, json.load(open('/root/.vp/MANIFEST.schema.json')))
    print("MANIFEST ok: %d checks, %d not claimed" % (len(m['checks']), len(m.get('not_applicable', []))))
except Exception as e:
    ok = False; print("MANIFEST INVALID", str(e)[:300])
es = json.load(open('/root/.vp/EVIDENCE.schema.json'))
for c in m['checks']:
    p = c['evidence_file']
    try:
        e = json.load(open(p)); jsonschema.validate(e, es)
        cov = e['coverage']
        flag = "" if (cov.get('obligations', 0) >= 1 and cov.get('discharged') == cov.get('obligations')) else "  <-- obligations/discharged"
        print("%s ok tier=%s obligations=%s/%s evaluations=%s distinct=%s wall=%s%s" % (c['property_id'], e['tier'], cov.get('discharged'), cov.get('obligations'), cov.get('evaluations'), cov.get('distinct_nontrivial'), e['wall_s'], flag))
    except Exception as ex:
        ok = False; print(c['property_id'], "EVIDENCE INVALID/MISSING", str(ex)[:200])
sys.exit(0 if ok else 1)
