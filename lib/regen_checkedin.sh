#!/bin/bash
# Carry a template change over to the six checked-in *.pulsar.go files without protoc:
#   regen_checkedin.sh old    (before editing templates: records what the current generator emits)
#   regen_checkedin.sh new    (after editing: emits again, diffs, patches the checked-in files)
set -e
export GOFLAGS=-mod=mod GOPROXY=off GOSUMDB=off GOTOOLCHAIN=local
W=/var/tmp/regen; mkdir -p $W
(cd /repo && go build -o $W/plugin-$1 ./cmd/protoc-gen-go-pulsar)
(cd /verif/harness && cp /repo/go.sum . && go build -o $W/regen ./cmd/regen)
rm -rf $W/$1; mkdir -p $W/$1
$W/regen $W/plugin-$1 $W/$1 >/dev/null
if [ "$1" = new ]; then
  cd $W
  for f in $(cd new && find . -name '*.pulsar.go'); do
    rel=${f#./github.com/cosmos/cosmos-proto/}
    if ! diff -u old/$f new/$f > $W/d.patch; then
      patch -s /repo/$rel < $W/d.patch && echo "patched $rel" || { echo "PATCH FAILED for $rel"; exit 1; }
    fi
  done
fi
