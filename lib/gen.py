"""Regenerates the schema corpus with the plugin built from /repo's working tree."""
import glob, hashlib, os


def regenerate(ROOT, BUILD, REPO, GOENV, sh):
    hd = os.path.join(ROOT, "harness")
    rc, tree = sh("git -C %s rev-parse HEAD; git -C %s status --porcelain; git -C %s diff" % (REPO, REPO, REPO))
    h = hashlib.sha256(tree.encode())
    h.update(GOENV.get("VERIF_LINKED_RANDOM", "").encode())
    for p in sorted(glob.glob(os.path.join(hd, "corpus", "*.go")) + glob.glob(os.path.join(hd, "cmd", "schemagen", "*.go"))):
        h.update(open(p, "rb").read())
    stamp = os.path.join(BUILD, "gen.stamp")
    status = os.path.join(hd, "gen_status.json")
    if os.path.exists(stamp) and open(stamp).read() == h.hexdigest() and os.path.exists(status) and \
            os.path.exists(os.path.join(hd, "cmd", "runner", "zz_gen_imports.go")):
        return True, "corpus up to date"
    log = ""
    rc, out = sh(["timeout", "900", "go", "build", "-o", os.path.join(BUILD, "bin", "protoc-gen-go-pulsar"), "./cmd/protoc-gen-go-pulsar"], cwd=REPO, env=GOENV)
    log += out
    if rc != 0:
        return False, "the plugin does not build:\n" + log
    rc, out = sh(["timeout", "900", "go", "build", "-o", os.path.join(BUILD, "bin", "schemagen"), "./cmd/schemagen"], cwd=hd, env=GOENV)
    log += out
    if rc != 0:
        return False, "schemagen does not build (does /repo still compile?):\n" + log
    rc, out = sh(["timeout", "1800", os.path.join(BUILD, "bin", "schemagen"), os.path.join(BUILD, "bin", "protoc-gen-go-pulsar"), hd], cwd=hd, env=GOENV)
    log += out
    if rc != 0:
        return False, log
    open(stamp, "w").write(h.hexdigest())
    return True, log
