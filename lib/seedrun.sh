#!/bin/bash
# usage: seedrun.sh <seed id> <property>...   applies /verif/seeded/<id>/patch.diff to /repo, runs the checks, reverts
id=$1; shift
cd /verif
git -C /repo apply /verif/seeded/$id/patch.diff || { echo "patch does not apply"; exit 2; }
for p in "$@"; do ./check $p --tier ${TIER:-quick} 2>&1 | grep -E "^(VIOLATION|KNOWN|PASS|FAIL|  failing input|  broken)" | cut -c1-400 | head -8; done
git -C /repo checkout -- . ; git -C /repo status --short | head
