#!/usr/bin/env python3
"""Writes MANIFEST.json from lib/props.py (single source of truth for what is claimed)."""
import json, os, sys
ROOT = os.path.dirname(os.path.dirname(os.path.abspath(__file__)))
sys.path.insert(0, os.path.join(ROOT, "lib"))
from props import PROPS, NOT_APPLICABLE

ids = [json.loads(l)["id"] for l in open(os.path.join(ROOT, "properties.jsonl"))]
checks = []
for pid in ids:
    if pid not in PROPS:
        continue
    s = PROPS[pid]
    checks.append({
        "property_id": pid,
        "quick_cmd": "./check %s --tier quick" % pid,
        "thorough_cmd": "./check %s --tier thorough" % pid,
        "evidence_file": "/verif/evidence/%s.json" % pid,
        "replay_cmd_template": "./check replay {path}",
        "engine": ",".join(e if isinstance(e, str) else e[0] for e in s["engines"]),
        "level_claimed": {"category": s.get("level", "proof"), "text": s["level_text"], "design_ref": s.get("design_ref", "DESIGN.md §6 " + pid)},
        "level_note": s["level_note"],
        "technique": s.get("technique", "Coq 8.16 theorems about a hand-written Gallina model + correspondence check (extracted model vs implementation on the same inputs) + translator tie (the Go source is re-translated on every run into a Coq-defined statement language and compared with the canonical program whose interpretation is proved equal to the model; DESIGN 12.7)"),
    })
na = [{"property_id": pid, "reason": NOT_APPLICABLE.get(pid, "check not built yet in this session; see DESIGN.md §6 for the plan")} for pid in ids if pid not in PROPS]
m = {
    "version": 1,
    "setup_cmd": "./check setup",
    "hooks": {"guard": "verif", "enable": "no hooks are needed: the harness module github.com/cosmos/cosmos-proto/verifh uses `replace github.com/cosmos/cosmos-proto => /repo` and reaches internals through the module-path prefix, the registries and package reflect",
              "baseline_off_cmd": "cd /repo && GOFLAGS=-mod=mod GOPROXY=off GOSUMDB=off GOTOOLCHAIN=local go test -vet=off -count=1 ./...",
              "source_commits": [], "add_only": True},
    "engines": [{"name": "check", "path": "/verif/check", "serves_properties": [c["property_id"] for c in checks],
                 "kind_free_text": "python driver: coqc proof re-check + Print Assumptions audit, Go runner rebuilt from /repo's working tree, extracted OCaml model, comparison, evidence"}],
    "checks": checks,
    "not_applicable": na,
    "notes": "See DESIGN.md (section 12 is the as-built record; 12.7 the translator ties). Every check re-proves its theorems with coqc (Print Assumptions audit), re-translates the source it is about, and re-runs the model/implementation correspondence against code rebuilt from /repo's working tree.",
}
json.dump(m, open(os.path.join(ROOT, "MANIFEST.json"), "w"), indent=1)
print("wrote MANIFEST.json with %d checks, %d not claimed" % (len(checks), len(na)))
